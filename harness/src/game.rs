//! The shadow game: executes request lists exactly as a user would, checks the request contract
//! (C02) while doing so, and records the last simulation of every frame.
use crate::base::*;
use ggrs::{Config, GameStateCell, GgrsRequest, InputStatus};
use std::collections::{BTreeMap, VecDeque};

#[derive(Clone, Copy, Debug, PartialEq, Eq)]
pub enum Req {
    Save(i32),
    Load(i32),
    Adv(i32),
}

pub type Row = Vec<(Inp, InputStatus)>;

#[derive(Default, Clone, Debug)]
pub struct GameCounters {
    pub lists: u64,
    pub saves: u64,
    pub loads: u64,
    pub advances: u64,
    pub resims: u64,
    pub load_depth: [u64; 17],
    pub loads_of_resaved: u64,
    pub max_depth: i32,
}

pub struct Game {
    pub st: GState,
    /// frame of timeline[0] / states[0]
    base: i32,
    timeline: VecDeque<Row>,
    states: VecDeque<GState>,
    simcount: VecDeque<u32>,
    savecount: VecDeque<u32>,
    /// bound on retained history (frames); None = keep everything
    pub keep: Option<usize>,
    pub cells: BTreeMap<i32, GameStateCell<GState>>,
    pub checksums: BTreeMap<i32, u128>,
    pub last_call: Vec<Req>,
    pub c: GameCounters,
    /// rolling hash over all requests (kinds, frames, values, statuses)
    pub trace: u64,
    /// one hash per executed list (first divergence point for differential checks)
    pub call_hashes: Vec<u64>,
    pub keep_call_hashes: bool,
    /// C09: every simulation of a frame >= D yields a deterministically perturbed state
    pub diverge_from: Option<i32>,
    /// C13: the k-th simulation (k>=2) of frame X yields a perturbed state
    pub nondet: Option<(i32, u32)>,
    pub first_sim_of_zero_seen: bool,
    /// false: states are saved WITHOUT a checksum (legitimate when desync detection is off)
    pub save_checksum: bool,
    /// Some(n): only frames divisible by n are saved with a checksum (a game that checksums now and then)
    pub checksum_mod: Option<i32>,
    /// true (C02's oracle): a load of a cell that does not hold the state of that frame on the current timeline is an
    /// error; false: the game loads whatever the cell holds, as a real game would, and the other oracles judge the outcome
    pub strict_cells: bool,
    pub stale_loads: u64,
}

impl Game {
    pub fn new() -> Self {
        let mut g = Game {
            st: GState::initial(),
            base: 0,
            timeline: VecDeque::new(),
            states: VecDeque::new(),
            simcount: VecDeque::new(),
            savecount: VecDeque::new(),
            keep: None,
            cells: BTreeMap::new(),
            checksums: BTreeMap::new(),
            last_call: vec![],
            c: GameCounters::default(),
            trace: 0,
            call_hashes: vec![],
            keep_call_hashes: true,
            diverge_from: None,
            nondet: None,
            first_sim_of_zero_seen: false,
            save_checksum: true,
            checksum_mod: None,
            strict_cells: true,
            stale_loads: 0,
        };
        g.states.push_back(g.st);
        g
    }
    pub fn frame(&self) -> i32 {
        self.st.frame
    }
    /// inputs of the last simulation of frame f
    pub fn row(&self, f: i32) -> Option<&Row> {
        if f < self.base {
            return None;
        }
        self.timeline.get((f - self.base) as usize).filter(|r| !r.is_empty())
    }
    /// state at frame f on the current timeline (as produced by the latest simulation of f-1)
    pub fn state(&self, f: i32) -> Option<GState> {
        if f < self.base {
            return None;
        }
        self.states.get((f - self.base) as usize).copied().filter(|s| s.frame == f)
    }
    pub fn sims(&self, f: i32) -> u32 {
        if f < self.base {
            return 0;
        }
        self.simcount.get((f - self.base) as usize).copied().unwrap_or(0)
    }
    pub fn frames_recorded(&self) -> i32 {
        self.base + self.timeline.len() as i32
    }
    fn ensure(&mut self, f: i32) {
        let idx = (f - self.base) as usize;
        while self.timeline.len() <= idx {
            self.timeline.push_back(vec![]);
        }
        while self.simcount.len() <= idx {
            self.simcount.push_back(0);
        }
        while self.savecount.len() <= idx + 1 {
            self.savecount.push_back(0);
        }
        while self.states.len() <= idx + 1 {
            self.states.push_back(GState { frame: -1, hash: 0 });
        }
    }
    fn prune(&mut self) {
        if let Some(k) = self.keep {
            while self.timeline.len() > k {
                self.timeline.pop_front();
                self.states.pop_front();
                self.simcount.pop_front();
                self.savecount.pop_front();
                self.base += 1;
            }
            let lo = self.st.frame - k as i32;
            while let Some((&f, _)) = self.cells.iter().next() {
                if f < lo {
                    self.cells.remove(&f);
                } else {
                    break;
                }
            }
            while let Some((&f, _)) = self.checksums.iter().next() {
                if f < lo {
                    self.checksums.remove(&f);
                } else {
                    break;
                }
            }
        }
    }

    /// Executes one request list in order, checking the contract. Err = C02 clause violated.
    pub fn handle<C: Config<Input = Inp, State = GState>>(&mut self, reqs: Vec<GgrsRequest<C>>, rollback_mode: bool) -> Result<(), String> {
        self.last_call.clear();
        self.c.lists += 1;
        let mut h = 0u64;
        let mut saved_in_list: Vec<i32> = vec![];
        for r in reqs {
            match r {
                GgrsRequest::SaveGameState { cell, frame } => {
                    let st = self.st;
                    if frame != st.frame {
                        return Err(format!("SaveGameState names frame {frame} but the game is at frame {}", st.frame));
                    }
                    self.c.saves += 1;
                    h = mix(h, (1 << 60) | frame as u64);
                    self.checksums.insert(frame, st.checksum());
                    cell.save(frame, Some(st), if self.save_checksum && self.checksum_mod.is_none_or(|n| frame % n == 0) { Some(st.checksum()) } else { None });
                    self.cells.insert(frame, cell);
                    self.ensure(frame);
                    let i = (frame - self.base) as usize;
                    if frame >= self.base {
                        self.savecount[i] += 1;
                    }
                    saved_in_list.push(frame);
                    self.last_call.push(Req::Save(frame));
                }
                GgrsRequest::LoadGameState { cell, frame } => {
                    let st = self.st;
                    let Some(s) = cell.load() else {
                        return Err(format!("LoadGameState({frame}): the cell is empty"));
                    };
                    if s.frame != frame {
                        return Err(format!("LoadGameState({frame}): the cell holds a state of frame {}", s.frame));
                    }
                    if frame >= st.frame {
                        return Err(format!("LoadGameState({frame}) is not earlier than the game frame {}", st.frame));
                    }
                    match self.state(frame) {
                        Some(want) if want != s && !self.strict_cells => {
                            self.stale_loads += 1;
                        }
                        Some(want) if want != s => {
                            return Err(format!("LoadGameState({frame}): the cell holds a stale state (not the state of frame {frame} on the current timeline)"));
                        }
                        _ => {}
                    }
                    let depth = st.frame - frame;
                    self.c.max_depth = self.c.max_depth.max(depth);
                    self.c.load_depth[(depth as usize).min(16)] += 1;
                    self.c.loads += 1;
                    if frame >= self.base && self.savecount.get((frame - self.base) as usize).copied().unwrap_or(0) > 1 {
                        self.c.loads_of_resaved += 1;
                    }
                    h = mix(h, (2 << 60) | frame as u64);
                    self.st = s;
                    self.last_call.push(Req::Load(frame));
                }
                GgrsRequest::AdvanceFrame { inputs } => {
                    let st = self.st;
                    let f = st.frame;
                    if f < self.base {
                        return Err(format!("AdvanceFrame for frame {f}, older than anything the harness retained"));
                    }
                    if rollback_mode && f == 0 && !self.first_sim_of_zero_seen && !saved_in_list.contains(&0) {
                        return Err("the first simulation of frame 0 is not preceded by a save of frame 0".into());
                    }
                    if f == 0 {
                        self.first_sim_of_zero_seen = true;
                    }
                    self.ensure(f);
                    let i = (f - self.base) as usize;
                    self.simcount[i] += 1;
                    let k = self.simcount[i];
                    if k > 1 {
                        self.c.resims += 1;
                    }
                    let iv: Vec<(Inp, bool)> = inputs.iter().map(|(v, s)| (*v, *s == InputStatus::Disconnected)).collect();
                    let mut ns = step(st, &iv);
                    if let Some(d) = self.diverge_from {
                        if f >= d {
                            ns.hash = mix(ns.hash, 0xBAD0_0BAD);
                        }
                    }
                    if let Some((x, kk)) = self.nondet {
                        if f == x && k == kk {
                            ns.hash = mix(ns.hash, 0xDEAD_0000 + k as u64);
                        }
                    }
                    for (v, s) in &inputs {
                        let sc = match s {
                            InputStatus::Confirmed => 0,
                            InputStatus::Predicted => 1,
                            InputStatus::Disconnected => 2,
                        };
                        h = mix(h, ((v.0 as u64) << 2) | sc);
                    }
                    h = mix(h, (3 << 60) | f as u64);
                    self.st = ns;
                    self.timeline[i] = inputs;
                    self.states[i + 1] = ns;
                    self.c.advances += 1;
                    self.last_call.push(Req::Adv(f));
                }
            }
        }
        self.trace = mix(self.trace, h);
        if self.keep_call_hashes {
            self.call_hashes.push(h);
        }
        self.prune();
        Ok(())
    }

    /// frames simulated (first or again) by the last list
    pub fn simulated_in_last_call(&self) -> impl Iterator<Item = i32> + '_ {
        self.last_call.iter().filter_map(|r| if let Req::Adv(f) = r { Some(*f) } else { None })
    }
    pub fn last_call_str(&self) -> String {
        self.last_call
            .iter()
            .map(|r| match r {
                Req::Save(f) => format!("S{f}"),
                Req::Load(f) => format!("L{f}"),
                Req::Adv(f) => format!("A{f}"),
            })
            .collect::<Vec<_>>()
            .join(" ")
    }
}
