//! Counting global allocator: a monitor we write, not a sanitizer.
//!
//! While a *region* is open on the calling thread, every block allocated inside it is entered
//! into a thread-local pointer table, so that the monitor knows the live bytes that were
//! allocated inside the region (regardless of who frees them later), the peak of that number, the
//! largest single request and the total requested. A single request above the hard cap is not
//! executed: a marker line is written with write(2) and null is returned, which makes Rust abort
//! the process - hostile-byte workloads therefore run in child processes.
//!
//! Tracking is off unless `enable()` was called (no overhead for the other checks). All state is
//! thread-local (worlds are single-threaded); the table never allocates.
use std::alloc::{GlobalAlloc, Layout, System};
use std::cell::UnsafeCell;
use std::sync::atomic::{AtomicBool, AtomicU64, AtomicUsize, Ordering};

const TABLE: usize = 1 << 16;
const TOMB: usize = 1;

pub struct Counting;

static ENABLED: AtomicBool = AtomicBool::new(false);
static CAP: AtomicUsize = AtomicUsize::new(256 << 20);
/// what the current worker is working on (printed in the marker line of a refused allocation)
pub static CURRENT_ITEM: AtomicU64 = AtomicU64::new(0);

struct State {
    depth: u32,
    suspended: u32,
    live: i64,
    peak: i64,
    largest: usize,
    total: u64,
    count: usize,
    used_slots: usize,
    overflow: bool,
    tab: [(usize, usize); TABLE],
}
struct Tls(UnsafeCell<State>);
// only ever touched from its own thread
unsafe impl Sync for Tls {}

thread_local! {
    static ST: Tls = const { Tls(UnsafeCell::new(State { depth: 0, suspended: 0, live: 0, peak: 0, largest: 0, total: 0, count: 0, used_slots: 0, overflow: false, tab: [(0, 0); TABLE] })) };
}

#[inline]
fn slot(p: usize) -> usize {
    ((p >> 4).wrapping_mul(0x9E37_79B9_7F4A_7C15) >> 40) & (TABLE - 1)
}

impl State {
    fn insert(&mut self, p: usize, size: usize) {
        if self.used_slots * 4 >= TABLE * 3 {
            self.overflow = true;
            return;
        }
        let mut i = slot(p);
        loop {
            let k = self.tab[i].0;
            if k == 0 || k == TOMB {
                if k == 0 {
                    self.used_slots += 1;
                }
                self.tab[i] = (p, size);
                self.count += 1;
                return;
            }
            i = (i + 1) & (TABLE - 1);
        }
    }
    fn remove(&mut self, p: usize) -> Option<usize> {
        if self.count == 0 {
            return None;
        }
        let mut i = slot(p);
        let mut probes = 0;
        loop {
            let k = self.tab[i].0;
            if k == 0 || probes > TABLE {
                return None;
            }
            if k == p {
                let s = self.tab[i].1;
                self.tab[i] = (TOMB, 0);
                self.count -= 1;
                if self.count == 0 {
                    // cheap way to get rid of tombstones
                    for e in self.tab.iter_mut() {
                        *e = (0, 0);
                    }
                    self.used_slots = 0;
                }
                return Some(s);
            }
            i = (i + 1) & (TABLE - 1);
            probes += 1;
        }
    }
    fn on_alloc(&mut self, p: usize, size: usize) {
        if self.depth > 0 && self.suspended == 0 {
            self.total += size as u64;
            self.largest = self.largest.max(size);
            self.live += size as i64;
            self.peak = self.peak.max(self.live);
            self.insert(p, size);
        }
    }
    fn on_free(&mut self, p: usize) {
        if let Some(s) = self.remove(p) {
            self.live -= s as i64;
        }
    }
}

fn refuse(size: usize) {
    let mut buf = [0u8; 96];
    let msg = format_marker(&mut buf, size, CURRENT_ITEM.load(Ordering::Relaxed));
    unsafe {
        libc::write(2, msg.as_ptr() as *const libc::c_void, msg.len());
    }
}
fn format_marker(buf: &mut [u8; 96], size: usize, item: u64) -> &[u8] {
    // "ALLOC-CAP size=<n> item=<m>\n" without allocating
    let mut n = 0;
    for b in b"ALLOC-CAP size=" {
        buf[n] = *b;
        n += 1;
    }
    n = put_num(buf, n, size as u64);
    for b in b" item=" {
        buf[n] = *b;
        n += 1;
    }
    n = put_num(buf, n, item);
    buf[n] = b'\n';
    &buf[..n + 1]
}
fn put_num(buf: &mut [u8; 96], mut n: usize, mut v: u64) -> usize {
    let mut tmp = [0u8; 20];
    let mut k = 0;
    loop {
        tmp[k] = b'0' + (v % 10) as u8;
        v /= 10;
        k += 1;
        if v == 0 {
            break;
        }
    }
    while k > 0 {
        k -= 1;
        buf[n] = tmp[k];
        n += 1;
    }
    n
}

unsafe impl GlobalAlloc for Counting {
    unsafe fn alloc(&self, l: Layout) -> *mut u8 {
        if !ENABLED.load(Ordering::Relaxed) {
            return System.alloc(l);
        }
        let tracking = ST.try_with(|s| {
            let st = &*s.0.get();
            st.depth > 0 && st.suspended == 0
        });
        if tracking == Ok(true) && l.size() > CAP.load(Ordering::Relaxed) {
            refuse(l.size());
            return std::ptr::null_mut();
        }
        let p = System.alloc(l);
        if !p.is_null() {
            let _ = ST.try_with(|s| (*s.0.get()).on_alloc(p as usize, l.size()));
        }
        p
    }
    unsafe fn alloc_zeroed(&self, l: Layout) -> *mut u8 {
        if !ENABLED.load(Ordering::Relaxed) {
            return System.alloc_zeroed(l);
        }
        let tracking = ST.try_with(|s| {
            let st = &*s.0.get();
            st.depth > 0 && st.suspended == 0
        });
        if tracking == Ok(true) && l.size() > CAP.load(Ordering::Relaxed) {
            refuse(l.size());
            return std::ptr::null_mut();
        }
        let p = System.alloc_zeroed(l);
        if !p.is_null() {
            let _ = ST.try_with(|s| (*s.0.get()).on_alloc(p as usize, l.size()));
        }
        p
    }
    unsafe fn dealloc(&self, p: *mut u8, l: Layout) {
        if ENABLED.load(Ordering::Relaxed) {
            let _ = ST.try_with(|s| (*s.0.get()).on_free(p as usize));
        }
        System.dealloc(p, l)
    }
    unsafe fn realloc(&self, p: *mut u8, l: Layout, new_size: usize) -> *mut u8 {
        if !ENABLED.load(Ordering::Relaxed) {
            return System.realloc(p, l, new_size);
        }
        let tracking = ST.try_with(|s| {
            let st = &*s.0.get();
            st.depth > 0 && st.suspended == 0
        });
        if tracking == Ok(true) && new_size > CAP.load(Ordering::Relaxed) {
            refuse(new_size);
            return std::ptr::null_mut();
        }
        let q = System.realloc(p, l, new_size);
        if !q.is_null() {
            let _ = ST.try_with(|s| {
                let st = &mut *s.0.get();
                let was_tracked = st.remove(p as usize);
                if let Some(old) = was_tracked {
                    st.live -= old as i64;
                }
                if st.depth > 0 && st.suspended == 0 {
                    st.on_alloc(q as usize, new_size);
                } else if was_tracked.is_some() {
                    // a block of the region grown outside of it still belongs to the region
                    st.live += new_size as i64;
                    st.peak = st.peak.max(st.live);
                    st.insert(q as usize, new_size);
                }
            });
        }
        q
    }
}

pub fn enable(cap_bytes: usize) {
    CAP.store(cap_bytes, Ordering::Relaxed);
    ENABLED.store(true, Ordering::Relaxed);
}

#[derive(Clone, Copy, Debug, Default)]
pub struct RegionStats {
    pub peak_live: i64,
    pub largest: usize,
    pub overflow: bool,
}

/// Runs `f` as a monitored region and returns what was allocated inside it. Regions do not nest
/// (an inner call just extends the outer one). Counters are reset at the start of the outermost
/// region, but blocks of earlier regions that are still live stay in the table (C18 needs that).
pub fn region<R>(reset_peak: bool, f: impl FnOnce() -> R) -> (R, RegionStats) {
    ST.with(|s| unsafe {
        let st = &mut *s.0.get();
        if st.depth == 0 {
            st.largest = 0;
            st.total = 0;
            if reset_peak {
                st.peak = st.live;
            }
        }
        st.depth += 1;
    });
    let base = live_now();
    let r = f();
    let stats = ST.with(|s| unsafe {
        let st = &mut *s.0.get();
        st.depth -= 1;
        RegionStats { peak_live: st.peak - base, largest: st.largest, overflow: st.overflow }
    });
    (r, stats)
}

/// Suspends tracking (used inside the simulated socket, which is harness code running within
/// ggrs calls).
pub fn outside<R>(f: impl FnOnce() -> R) -> R {
    if !ENABLED.load(Ordering::Relaxed) {
        return f();
    }
    ST.with(|s| unsafe { (*s.0.get()).suspended += 1 });
    let r = f();
    ST.with(|s| unsafe { (*s.0.get()).suspended -= 1 });
    r
}

/// Live bytes that were allocated inside regions of this thread and not freed yet.
pub fn live_now() -> i64 {
    ST.with(|s| unsafe { (*s.0.get()).live })
}
/// True if the pointer table ever overflowed on this thread (measurements are then lower bounds).
pub fn overflowed() -> bool {
    ST.with(|s| unsafe { (*s.0.get()).overflow })
}
pub fn is_enabled() -> bool {
    ENABLED.load(Ordering::Relaxed)
}
