//! Deterministic simulated network. The fate of the n-th packet on a directed link is a function
//! of the scenario only (per-link PRNG stream, fixed number of draws per packet), and delivery
//! order at a receiver is the total order (deliver time, sender, per-link sequence).
use crate::base::*;
use ggrs::verif_hooks as vh;
use ggrs::{Message, NonBlockingSocket};
use serde::{Deserialize, Serialize};
use std::cell::RefCell;
use std::collections::{BTreeMap, HashMap, HashSet};
use std::rc::Rc;

#[derive(Clone, Debug, Serialize, Deserialize, PartialEq)]
pub enum Fault {
    Drop,
    Dup,
    Delay(u64),
}
/// A scripted fault on the `idx`-th packet of a link phase.
/// phase 0: index counts all packets of the link from the start (handshake);
/// phase 1: index counts packets from the first non-handshake packet on the link.
#[derive(Clone, Debug, Serialize, Deserialize, PartialEq)]
pub struct ScriptFault {
    pub phase: u8,
    pub idx: u64,
    pub what: Fault,
}
/// Timed outage, times in ms relative to T0. `kinds`: bit mask of message kinds affected
/// (0 = all kinds).
#[derive(Clone, Debug, Serialize, Deserialize, PartialEq)]
pub struct Outage {
    pub from_ms: u64,
    pub to_ms: u64,
    pub kinds: u16,
}
/// Late duplicates: every `every`-th packet SENT on the link within [from_ms, to_ms) is delivered normally and once more
/// `delay_ms` later (a straggling copy, far beyond the ordinary jitter). Deterministic, consumes no random draws.
#[derive(Clone, Debug, Serialize, Deserialize, PartialEq)]
pub struct Straggler {
    pub from_ms: u64,
    pub to_ms: u64,
    pub every: u64,
    pub delay_ms: u64,
    /// the packet itself is held back (delivered only once, `delay_ms` late) instead of being duplicated
    #[serde(default)]
    pub hold: bool,
}
#[derive(Clone, Debug, Default, Serialize, Deserialize, PartialEq)]
pub struct Link {
    pub drop: f64,
    pub dup: f64,
    pub base_ms: u64,
    pub jitter_ms: u64,
    pub outages: Vec<Outage>,
    pub faults: Vec<ScriptFault>,
    #[serde(default)]
    pub stragglers: Vec<Straggler>,
}
impl Link {
    pub fn clean(base_ms: u64) -> Link {
        Link { base_ms, ..Default::default() }
    }
    pub fn is_faulty(&self) -> bool {
        self.drop > 0.0 || self.dup > 0.0 || self.jitter_ms > 0 || !self.outages.is_empty() || !self.faults.is_empty() || !self.stragglers.is_empty()
    }
}

pub struct Pkt {
    pub at: u64,
    pub seq: u64,
    pub from: Addr,
    pub to: Addr,
    pub msg: Message,
    pub forged: bool,
}

struct LinkState {
    link: Link,
    rng: Rng,
    seq: u64,
    run_start: Option<u64>,
    last_delivered_seq: u64,
    max_frame_sent: i32,
}

#[derive(Clone, Debug, Default, Serialize)]
pub struct NetStats {
    pub sent: u64,
    pub sent_by_kind: [u64; 8],
    pub dropped_random: u64,
    pub dropped_outage: u64,
    pub dropped_outage_by_kind: [u64; 8],
    pub dropped_script: u64,
    pub dropped_dead: u64,
    pub duplicated: u64,
    pub delayed_script: u64,
    pub delivered: u64,
    pub delivered_out_of_order: u64,
    pub input_retransmissions: u64,
    pub sync_retransmissions: u64,
    pub forged_delivered: u64,
    pub stray_replies_injected: u64,
    /// virtual time (ns) at which the last injected fault (scripted fault or outage drop) took effect
    pub last_fault_t: u64,
    pub faults_applied_by_kind: [u64; 8],
    pub stragglers: u64,
}

#[derive(Clone, Debug)]
pub struct PktEvent {
    pub t: u64,
    pub from: Addr,
    pub to: Addr,
    pub what: &'static str,
    pub msg: WMsg,
}

pub struct Net {
    pub seed: u64,
    pub default: Link,
    pub overrides: HashMap<(Addr, Addr), Link>,
    links: HashMap<(Addr, Addr), LinkState>,
    inflight: HashMap<Addr, Vec<Pkt>>,
    pub dead: HashSet<Addr>,
    pub stats: NetStats,
    /// virtual time a packet from .0 was last handed to .1's session by the socket
    pub last_rx: HashMap<(Addr, Addr), u64>,
    /// last genuine Input packet delivered on a link (for forging)
    pub last_input_delivered: HashMap<(Addr, Addr), WMsg>,
    /// newest input frame of `from` ever handed to `to` (from the payloads, independent of the sessions' bookkeeping)
    pub max_input_frame_delivered: HashMap<(Addr, Addr), i32>,
    /// connection statuses gossiped by `from` as merged from all Input packets handed to `to` (flag ORed, frame max: the
    /// merge the endpoint itself applies)
    pub gossip_delivered: HashMap<(Addr, Addr), Vec<(bool, i32)>>,
    /// last genuine packet of any kind delivered on a link
    pub last_any_delivered: HashMap<(Addr, Addr), WMsg>,
    /// sync nonces (me -> to) that are outstanding, and matched round trips (me, from)
    pub sent_req: HashMap<(Addr, Addr), HashSet<u32>>,
    pub matched: HashMap<(Addr, Addr), u32>,
    pub stray_replies: bool,
    pub log: Option<Vec<PktEvent>>,
    /// clock advance per receive call while a lockstep wait helper spins (0 = off)
    pub spin_ns: u64,
    forged_seq: u64,
    /// rolling hash per receiver of everything handed to it (for determinism checks)
    pub rx_hash: BTreeMap<Addr, u64>,
    /// checksum reports delivered: (from, to) -> count
    pub checksum_reports: u64,
}

impl Net {
    pub fn new(seed: u64, default: Link) -> Self {
        Net {
            seed,
            default,
            overrides: HashMap::new(),
            links: HashMap::new(),
            inflight: HashMap::new(),
            dead: HashSet::new(),
            stats: NetStats::default(),
            last_rx: HashMap::new(),
            last_input_delivered: HashMap::new(),
            max_input_frame_delivered: HashMap::new(),
            gossip_delivered: HashMap::new(),
            last_any_delivered: HashMap::new(),
            sent_req: HashMap::new(),
            matched: HashMap::new(),
            stray_replies: false,
            log: None,
            spin_ns: 0,
            forged_seq: 0,
            rx_hash: BTreeMap::new(),
            checksum_reports: 0,
        }
    }
    fn log(&mut self, t: u64, from: Addr, to: Addr, what: &'static str, w: &WMsg) {
        if let Some(l) = &mut self.log {
            l.push(PktEvent { t, from, to, what, msg: w.clone() });
        }
    }
    /// Kill a node: it neither sends nor receives any more; each of its in-flight packets is
    /// dropped independently with probability `pdrop`.
    pub fn kill(&mut self, a: Addr, pdrop: f64, rng: &mut Rng) {
        self.dead.insert(a);
        self.inflight.remove(&a);
        // receivers in address order: the fate of an in-flight packet must be a function of the scenario, not of the
        // iteration order of this map (differential checks compare two runs of one scenario)
        let mut keys: Vec<Addr> = self.inflight.keys().copied().collect();
        keys.sort_unstable();
        for k in keys {
            if let Some(v) = self.inflight.get_mut(&k) {
                v.retain(|p| !(p.from == a && rng.chance(pdrop)));
            }
        }
    }
    /// Put a forged packet on the wire, delivered at `at` after all genuine packets of that instant.
    pub fn inject(&mut self, at: u64, from: Addr, to: Addr, msg: Message) {
        self.forged_seq += 1;
        let seq = (1 << 40) + self.forged_seq;
        self.inflight.entry(to).or_default().push(Pkt { at, seq, from, to, msg, forged: true });
    }
    pub fn matched_roundtrips(&self, me: Addr, from: Addr) -> u32 {
        *self.matched.get(&(me, from)).unwrap_or(&0)
    }

    fn send(&mut self, me: Addr, to: Addr, msg: &Message) {
        let now = vh::clock_now_nanos();
        let w = to_w(msg);
        let k = kind(&w);
        self.stats.sent += 1;
        self.stats.sent_by_kind[k as usize] += 1;
        if self.dead.contains(&me) || self.dead.contains(&to) {
            self.stats.dropped_dead += 1;
            return;
        }
        if let WBody::SyncRequest { r } = &w.body {
            let set = self.sent_req.entry((me, to)).or_default();
            if !set.is_empty() {
                self.stats.sync_retransmissions += 1;
            }
            set.insert(*r);
        }
        let seed = self.seed;
        let link = self.overrides.get(&(me, to)).cloned().unwrap_or_else(|| self.default.clone());
        let ls = self.links.entry((me, to)).or_insert_with(|| LinkState {
            link,
            rng: Rng::new(seed ^ ((me as u64) << 32) ^ ((to as u64) << 16) ^ 0x11E7),
            seq: 0,
            run_start: None,
            last_delivered_seq: 0,
            max_frame_sent: -1,
        });
        ls.seq += 1;
        let lseq = ls.seq;
        if k >= K_INPUT && ls.run_start.is_none() {
            ls.run_start = Some(lseq);
        }
        if let WBody::Input { start, bytes, .. } = &w.body {
            // number of frames in the packet does not depend on the reference
            let n = ref_frame_lens(bytes).map(|v| v.len() as i32).unwrap_or(0);
            if n > 0 {
                if *start <= ls.max_frame_sent {
                    self.stats.input_retransmissions += 1;
                }
                ls.max_frame_sent = ls.max_frame_sent.max(*start + n - 1);
            }
        }
        let rel_ms = now.saturating_sub(T0) / MS;
        let l = &ls.link;
        // always draw the same number of randoms per packet
        let r = &mut ls.rng;
        let d_drop = r.chance(l.drop);
        let d_dup = r.chance(l.dup);
        let j1 = r.below(l.jitter_ms * MS + 1);
        let j2 = r.below(l.jitter_ms * MS + 1);
        let outage = l.outages.iter().any(|o| rel_ms >= o.from_ms && rel_ms < o.to_ms && (o.kinds == 0 || o.kinds & (1 << k) != 0));
        let mut script: Option<Fault> = None;
        for f in &l.faults {
            let hit = match f.phase {
                0 => f.idx + 1 == lseq,
                _ => ls.run_start.is_some_and(|s| lseq >= s && f.idx == lseq - s),
            };
            if hit {
                script = Some(f.what.clone());
            }
        }
        let base = l.base_ms * MS;
        if outage {
            self.stats.last_fault_t = self.stats.last_fault_t.max(now);
            self.stats.faults_applied_by_kind[k as usize] += 1;
            self.stats.dropped_outage += 1;
            self.stats.dropped_outage_by_kind[k as usize] += 1;
            self.log(now, me, to, "drop-outage", &w);
            return;
        }
        if script.is_some() {
            self.stats.faults_applied_by_kind[k as usize] += 1;
            let d = if let Some(Fault::Delay(ms)) = script { ms * MS } else { 0 };
            self.stats.last_fault_t = self.stats.last_fault_t.max(now + base + d);
        }
        if script == Some(Fault::Drop) {
            self.stats.dropped_script += 1;
            self.log(now, me, to, "drop-script", &w);
            return;
        }
        if d_drop {
            self.stats.dropped_random += 1;
            self.log(now, me, to, "drop-random", &w);
            return;
        }
        let extra = if let Some(Fault::Delay(ms)) = script {
            self.stats.delayed_script += 1;
            ms * MS
        } else {
            0
        };
        if let Some(sg) = ls.link.stragglers.iter().find(|g| g.hold && rel_ms >= g.from_ms && rel_ms < g.to_ms && lseq % g.every.max(1) == 0) {
            // held back: the only copy arrives `delay_ms` late
            self.stats.stragglers += 1;
            let at = now + base + sg.delay_ms * MS;
            self.inflight.entry(to).or_default().push(Pkt { at, seq: lseq * 2, from: me, to, msg: msg.clone(), forged: false });
            self.log(now, me, to, "send-held", &w);
            return;
        }
        let q = self.inflight.entry(to).or_default();
        q.push(Pkt { at: now + base + j1 + extra, seq: lseq * 2, from: me, to, msg: msg.clone(), forged: false });
        if d_dup || script == Some(Fault::Dup) {
            self.stats.duplicated += 1;
            q.push(Pkt { at: now + base + j2, seq: lseq * 2 + 1, from: me, to, msg: msg.clone(), forged: false });
        }
        if !d_dup {
            if let Some(sg) = ls.link.stragglers.iter().find(|g| !g.hold && rel_ms >= g.from_ms && rel_ms < g.to_ms && lseq % g.every.max(1) == 0) {
                self.stats.stragglers += 1;
                let at = now + base + sg.delay_ms * MS;
                self.inflight.entry(to).or_default().push(Pkt { at, seq: lseq * 2 + 1, from: me, to, msg: msg.clone(), forged: false });
            }
        }
        self.log(now, me, to, "send", &w);
    }

    fn receive(&mut self, me: Addr) -> Vec<(Addr, Message)> {
        if self.spin_ns > 0 {
            vh::clock_advance(std::time::Duration::from_nanos(self.spin_ns));
        }
        let now = vh::clock_now_nanos();
        if self.dead.contains(&me) {
            return vec![];
        }
        let mut out: Vec<Pkt> = Vec::new();
        if let Some(q) = self.inflight.get_mut(&me) {
            let mut i = 0;
            while i < q.len() {
                if q[i].at <= now {
                    out.push(q.swap_remove(i));
                } else {
                    i += 1;
                }
            }
        }
        if out.is_empty() {
            return vec![];
        }
        out.sort_by_key(|p| (p.at, p.from, p.seq));
        if self.stray_replies {
            // after every genuine SyncReply: an exact duplicate, one with a corrupted nonce, and
            // one from a foreign address. None of them may count as a round trip.
            let mut extra = vec![];
            for p in out.iter().filter(|p| !p.forged) {
                let w = to_w(&p.msg);
                if let WBody::SyncReply { r } = w.body {
                    extra.push(Pkt { at: p.at, seq: p.seq, from: p.from, to: p.to, msg: p.msg.clone(), forged: true });
                    let mut w2 = w.clone();
                    w2.body = WBody::SyncReply { r: r ^ 0x5555_0001 };
                    extra.push(Pkt { at: p.at, seq: p.seq, from: p.from, to: p.to, msg: from_w(&w2), forged: true });
                    extra.push(Pkt { at: p.at, seq: p.seq, from: 999, to: p.to, msg: p.msg.clone(), forged: true });
                    self.stats.stray_replies_injected += 3;
                }
            }
            // genuine first, strays after (stable order)
            out.extend(extra);
        }
        let mut res = Vec::with_capacity(out.len());
        for p in out {
            let w = to_w(&p.msg);
            let k = kind(&w);
            if p.forged {
                self.stats.forged_delivered += 1;
                self.log(now, p.from, me, "deliver-forged", &w);
            } else {
                self.stats.delivered += 1;
                if let Some(ls) = self.links.get_mut(&(p.from, me)) {
                    if p.seq < ls.last_delivered_seq {
                        self.stats.delivered_out_of_order += 1;
                    }
                    ls.last_delivered_seq = ls.last_delivered_seq.max(p.seq);
                }
                if let WBody::SyncReply { r } = &w.body {
                    if self.sent_req.entry((me, p.from)).or_default().remove(r) {
                        *self.matched.entry((me, p.from)).or_default() += 1;
                    }
                }
                if k == K_INPUT {
                    if let WBody::Input { st, disc, .. } = &w.body {
                        if !*disc && !p.forged {
                            let g = self.gossip_delivered.entry((p.from, me)).or_default();
                            if g.len() < st.len() {
                                g.resize(st.len(), (false, -1));
                            }
                            for (i, c) in st.iter().enumerate() {
                                g[i].0 |= c.disconnected;
                                g[i].1 = g[i].1.max(c.last_frame);
                            }
                        }
                    }
                    if let WBody::Input { start, bytes, .. } = &w.body {
                        let n = ref_frame_lens(bytes).map(|v| v.len() as i32).unwrap_or(0);
                        if n > 0 && *start >= 0 {
                            let e = self.max_input_frame_delivered.entry((p.from, me)).or_insert(-1);
                            *e = (*e).max(*start + n - 1);
                        }
                    }
                    self.last_input_delivered.insert((p.from, me), w.clone());
                }
                if k == K_CHK {
                    self.checksum_reports += 1;
                }
                self.last_any_delivered.insert((p.from, me), w.clone());
                self.last_rx.insert((p.from, me), now);
                self.log(now, p.from, me, "deliver", &w);
            }
            let h = self.rx_hash.entry(me).or_insert(0);
            // magic numbers and sync nonces are random per run: hash only the shape
            *h = mix(*h, ((p.from as u64) << 8) | k as u64);
            res.push((p.from, p.msg));
        }
        res
    }
}

pub struct SimSocket {
    pub me: Addr,
    pub net: Rc<RefCell<Net>>,
}
impl NonBlockingSocket<Addr> for SimSocket {
    fn send_to(&mut self, msg: &Message, addr: &Addr) {
        // harness code running inside a ggrs call: not part of what the allocation monitor measures
        crate::alloc::outside(|| self.net.borrow_mut().send(self.me, *addr, msg));
    }
    fn receive_all_messages(&mut self) -> Vec<(Addr, Message)> {
        crate::alloc::outside(|| self.net.borrow_mut().receive(self.me))
    }
}
