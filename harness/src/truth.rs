//! Executable reference of the documented input-delay semantics, fed with the owner's API calls.
//! `truth[h][F]` is the input every peer must end up using for player h at frame F (while h is
//! connected); the serial replay of the truth is the state every peer must have.
use crate::base::*;

#[derive(Clone, Debug)]
pub struct PlayerTruth {
    pub delay: usize,
    last_user: i32,
    /// values[F] = input in force at game frame F; len-1 is the newest queued frame
    pub values: Vec<Inp>,
    /// 0 = real submission, 1 = fill (blank before the first input / repeat after an increase)
    pub origin: Vec<u8>,
    pub fills_after_increase: u64,
    pub drops_after_decrease: u64,
    pub stall_resubmissions: u64,
    pub delay_changes: u64,
    /// every accepted submission: (user frame, value, delay in force, number of delay changes so far)
    pub subs: Vec<(i32, Inp, usize, u64)>,
    pub set_delay_calls: u64,
}
impl PlayerTruth {
    pub fn new(delay: usize) -> Self {
        PlayerTruth { delay, last_user: -1, values: vec![], origin: vec![], fills_after_increase: 0, drops_after_decrease: 0, stall_resubmissions: 0, delay_changes: 0, subs: vec![], set_delay_calls: 0 }
    }
    pub fn last_added(&self) -> i32 {
        self.values.len() as i32 - 1
    }
    /// The frames an increase opens up are filled right away with the last input (the queue and
    /// what is announced to the remotes must agree even if the delay changes again before the next
    /// submission); a decrease makes later submissions be dropped until the queue has caught up.
    pub fn set_delay(&mut self, d: usize) {
        if d != self.delay {
            self.delay_changes += 1;
        }
        self.set_delay_calls += 1;
        self.delay = d;
        if self.values.is_empty() {
            return;
        }
        let next_target = self.last_user + 1 + d as i32;
        let last = *self.values.last().unwrap();
        for _ in self.last_added() + 1..next_target {
            self.fills_after_increase += 1;
            self.values.push(last);
            self.origin.push(1);
        }
    }
    /// The owner's session accepted `v` as the input of user frame `f` (an Ok advance_frame call
    /// that was made with current_frame() == f).
    pub fn submit(&mut self, f: i32, v: Inp) {
        if self.last_user != -1 && f != self.last_user + 1 {
            // a stalled call is retried with the same user frame: the first submission wins
            self.stall_resubmissions += 1;
            return;
        }
        self.last_user = f;
        self.subs.push((f, v, self.delay, self.set_delay_calls));
        let target = f + self.delay as i32;
        let expected = self.last_added() + 1;
        if expected > target {
            self.drops_after_decrease += 1;
            return;
        }
        let last = self.values.last().copied().unwrap_or_default();
        for _ in expected..target {
            if !self.values.is_empty() {
                self.fills_after_increase += 1;
            }
            self.values.push(last);
            self.origin.push(1);
        }
        self.values.push(v);
        self.origin.push(0);
    }
    pub fn get(&self, f: i32) -> Option<Inp> {
        if f < 0 {
            None
        } else {
            self.values.get(f as usize).copied()
        }
    }
}

pub struct Truth {
    pub players: Vec<PlayerTruth>,
    serial: Vec<GState>,
}
impl Truth {
    pub fn new(num_players: usize, delay: usize) -> Self {
        Truth { players: (0..num_players).map(|_| PlayerTruth::new(delay)).collect(), serial: vec![GState::initial()] }
    }
    pub fn get(&self, h: usize, f: i32) -> Option<Inp> {
        self.players[h].get(f)
    }
    /// State at frame f of the serial replay of the true inputs (all players connected).
    pub fn serial(&mut self, f: i32) -> Option<GState> {
        while (self.serial.len() as i32) <= f {
            let g = self.serial.len() as i32 - 1;
            let mut row = Vec::with_capacity(self.players.len());
            for p in &self.players {
                row.push((p.get(g)?, false));
            }
            let next = step(self.serial[g as usize], &row);
            self.serial.push(next);
        }
        self.serial.get(f as usize).copied()
    }
}
