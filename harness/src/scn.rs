//! Scenario description: everything that determines one simulated execution.
use crate::net::Link;
use serde::{Deserialize, Serialize};

#[derive(Clone, Debug, Serialize, Deserialize, PartialEq)]
pub struct SpecCfg {
    pub host: usize,
    pub catchup: usize,
    pub max_behind: usize,
    /// tick period relative to the nominal frame period
    pub period_factor: f64,
    /// (from_ms, to_ms) relative to T0 during which the spectator does not tick at all
    pub pauses: Vec<(u64, u64)>,
    /// whether the spectator's user drains events() every tick
    pub drain: bool,
}
impl SpecCfg {
    pub fn new(host: usize) -> Self {
        SpecCfg { host, catchup: 1, max_behind: 10, period_factor: 1.0, pauses: vec![], drain: true }
    }
}

#[derive(Clone, Debug, Serialize, Deserialize, PartialEq)]
pub struct NodeCfg {
    /// tick period multiplier minus one (0.05 = 5 % slower)
    pub skew: f64,
    /// uniform per-tick jitter added to the period
    pub jitter_ms: u64,
    pub pauses: Vec<(u64, u64)>,
    /// k polls per frame; the k-th one is the advancing tick
    pub polls_per_tick: u64,
    pub drain: bool,
    /// 0 advance_frame, 1 advance_frame_with_wait, 2 advance_frame_with_wait_timeout(wait_ms)
    pub wait: u8,
    pub wait_ms: u64,
    /// windows (ms after T0) in which the application only polls (a paused game that keeps its session alive):
    /// every tick is a bare poll_remote_clients, nothing is advanced
    #[serde(default)]
    pub poll_only: Vec<(u64, u64)>,
}
impl Default for NodeCfg {
    fn default() -> Self {
        NodeCfg { skew: 0.0, jitter_ms: 2, pauses: vec![], polls_per_tick: 1, drain: true, wait: 0, wait_ms: 0, poll_only: vec![] }
    }
}

#[derive(Clone, Debug, Serialize, Deserialize, PartialEq)]
pub enum Trigger {
    AtMs(u64),
    AtFrame(i32),
}
#[derive(Clone, Debug, Serialize, Deserialize, PartialEq)]
pub enum Misuse {
    /// add_local_input for a handle that is not local (remote, spectator or unknown)
    InputForHandle(usize),
    /// advance_frame with the input of one local player missing
    AdvanceMissingInput,
    /// add the inputs of all local players but the last, call advance_frame (must be rejected),
    /// then let the tick supply only the missing input and advance
    AdvancePartialInputs,
    DisconnectHandle(usize),
    SetDelayHandle(usize, usize),
    StatsHandle(usize),
}
#[derive(Clone, Debug, Serialize, Deserialize, PartialEq)]
pub enum Act {
    SetDelay { h: usize, d: usize },
    Disconnect { h: usize },
    Misuse(Misuse),
    /// the part of a failing advance_frame that is legitimately effective (twin of AdvanceMissingInput)
    BarePoll,
}
#[derive(Clone, Debug, Serialize, Deserialize, PartialEq)]
pub struct Action {
    pub node: usize,
    pub when: Trigger,
    pub act: Act,
}

#[derive(Clone, Debug, Serialize, Deserialize, PartialEq)]
pub struct Kill {
    pub node: usize,
    pub at_ms: u64,
    pub pdrop: f64,
}

#[derive(Clone, Debug, Serialize, Deserialize, PartialEq)]
pub enum Start {
    /// a node starts advancing as soon as its own session is Running (what an application does)
    Own,
    /// nodes start advancing once every session in the world is Running
    AllRunning,
    /// nodes only poll until this virtual time (ms after T0), then advance
    AtMs(u64),
}

#[derive(Clone, Debug, Serialize, Deserialize, PartialEq)]
pub struct Inject {
    /// victim node index and the address the forged packets claim to come from
    pub victim: usize,
    pub from_addr: u16,
    /// probability per victim tick inside [after_ms, until_ms)
    pub p: f64,
    pub after_ms: u64,
    pub until_ms: u64,
    /// class of malformation, see props/c08.rs (9 = mixed)
    pub class: u8,
    /// Some(k): payload class enumerates all byte strings of length <= 2 starting at index k
    pub exhaustive_from: Option<u64>,
    /// forge Input packets from scratch when no genuine one has been delivered yet (handshake state)
    pub synthesize: bool,
    /// also inject exact replays of genuine packets (only legitimate after the sender was dropped)
    pub replay_genuine: bool,
}

#[derive(Clone, Debug, Serialize, Deserialize, PartialEq)]
pub struct Scn {
    pub seed: u64,
    /// 0 PredictRepeatLast, 1 PredictDefault
    pub pred: u8,
    /// local player handles per peer; peer i has address i+1
    pub peers: Vec<Vec<usize>>,
    pub specs: Vec<SpecCfg>,
    pub mp: usize,
    pub delay: usize,
    pub sparse: bool,
    pub desync: Option<u32>,
    pub fps: usize,
    /// every player node stops advancing at this frame
    pub frames: i32,
    /// inputs are held for this many frames (1 = every frame a unique value)
    pub sticky: u32,
    pub link: Link,
    /// per directed link overrides (from addr, to addr)
    pub link_overrides: Vec<(u16, u16, Link)>,
    pub nodes: Vec<NodeCfg>,
    pub notify_ms: u64,
    pub timeout_ms: u64,
    pub start: Start,
    pub kill: Option<Kill>,
    pub actions: Vec<Action>,
    pub inject: Option<Inject>,
    /// (node, frame): that node's game diverges from this frame on (C09)
    pub diverge: Option<(usize, i32)>,
    pub stray_replies: bool,
    /// keep running (polling / advancing) this long after the frame target was reached
    pub settle_ms: u64,
    /// hard cap of virtual time (ms after T0); 0 = derived from frames
    pub limit_ms: u64,
    /// keep the packet log
    pub keep_log: bool,
    /// bound on the history the shadow games retain (C18 constant-memory mode)
    pub keep_frames: Option<usize>,
    /// the games save their states without a checksum (only meaningful with desync detection off)
    #[serde(default)]
    pub no_checksum: bool,
    /// a second peer that dies (later than `kill`)
    #[serde(default)]
    pub kill2: Option<Kill>,
}

impl Scn {
    pub fn base(seed: u64) -> Scn {
        Scn {
            seed,
            pred: 0,
            peers: vec![vec![0], vec![1]],
            specs: vec![],
            mp: 8,
            delay: 0,
            sparse: false,
            desync: None,
            fps: 60,
            frames: 300,
            sticky: 1,
            link: Link::clean(5),
            link_overrides: vec![],
            nodes: vec![],
            notify_ms: 500,
            timeout_ms: 2000,
            start: Start::Own,
            kill: None,
            actions: vec![],
            inject: None,
            diverge: None,
            stray_replies: false,
            settle_ms: 300,
            limit_ms: 0,
            keep_log: false,
            keep_frames: None,
            no_checksum: false,
            kill2: None,
        }
    }
    pub fn num_players(&self) -> usize {
        self.peers.iter().map(|l| l.len()).sum()
    }
    pub fn node_cfg(&self, i: usize) -> NodeCfg {
        self.nodes.get(i).cloned().unwrap_or_default()
    }
    pub fn owner_of(&self, h: usize) -> usize {
        self.peers.iter().position(|l| l.contains(&h)).expect("handle without owner")
    }
    /// configuration bucket used in evidence signatures
    pub fn bucket(&self) -> String {
        format!(
            "peers={:?} specs={} mp={} delay={} sparse={} pred={} desync={:?} drop={} dup={} lat={} jit={}",
            self.peers,
            self.specs.len(),
            self.mp,
            self.delay,
            self.sparse as u8,
            self.pred,
            self.desync,
            self.link.drop,
            self.link.dup,
            self.link.base_ms,
            self.link.jitter_ms
        )
    }
}

pub const TOPOLOGIES: &[&[&[usize]]] = &[
    &[&[0], &[1]],
    &[&[0, 1], &[2]],
    &[&[0, 2], &[1, 3]],
    &[&[0], &[1], &[2]],
    &[&[0], &[1], &[2], &[3]],
    &[&[0, 1], &[2], &[3]],
];
pub fn topo(i: usize) -> Vec<Vec<usize>> {
    TOPOLOGIES[i % TOPOLOGIES.len()].iter().map(|l| l.to_vec()).collect()
}

/// Topology from the number of local players per peer; handles are dealt round-robin so that a
/// peer's handles are not contiguous (e.g. [2,1,2] -> [[0,3],[1],[2,4]]).
pub fn topo_from_counts(counts: &[usize]) -> Vec<Vec<usize>> {
    let mut peers: Vec<Vec<usize>> = counts.iter().map(|_| vec![]).collect();
    let mut h = 0;
    let mut round = 0;
    loop {
        let mut any = false;
        for (i, c) in counts.iter().enumerate() {
            if round < *c {
                peers[i].push(h);
                h += 1;
                any = true;
            }
        }
        if !any {
            break;
        }
        round += 1;
    }
    peers
}
