//! Scenario generators shared by several properties, and helpers to describe a finished world.
use crate::base::*;
use crate::fw::*;
use crate::net::*;
use crate::scn::*;
use crate::world::*;
use serde_json::{json, Value};

/// A random scenario from "C01's space": all P2P topologies, windows 1..=12, delays 0..=4, sparse
/// on/off, both predictors, lossy/duplicating/reordering links, outages that stop short of a
/// disconnect (timeouts raised to 60 s), speed skew and pauses.
pub fn gen_c01_space(r: &mut Rng, frames: i32) -> Scn {
    let mut s = Scn::base(r.next());
    // the six standard topologies, or any assignment of 1-2 local players to 2-4 peers
    s.peers = if r.chance(0.6) {
        topo(r.below(6) as usize)
    } else {
        let n = r.range(2, 4) as usize;
        let counts: Vec<usize> = (0..n).map(|_| r.range(1, 2) as usize).collect();
        topo_from_counts(&counts)
    };
    s.pred = r.below(2) as u8;
    s.mp = r.range(1, 12) as usize;
    s.delay = r.below(5) as usize;
    s.sparse = r.chance(0.5);
    s.sticky = r.pick(&[1u32, 1, 3, 10]);
    s.frames = frames;
    s.desync = if r.chance(0.5) { Some(r.range(1, 12) as u32) } else { None };
    // a quarter of the sessions without detection save their states WITHOUT checksums (legitimate use of the API);
    // derived from the scenario seed so that no extra draw shifts the rest of the generation
    s.no_checksum = s.desync.is_none() && (s.seed >> 7) % 4 == 0;
    s.notify_ms = 50_000;
    s.timeout_ms = 60_000;
    s.link = gen_link(r);
    // some links differ from the default
    if r.chance(0.3) {
        let n = s.peers.len();
        let a = r.below(n as u64) as usize;
        let b = (a + 1 + r.below(n as u64 - 1) as usize) % n;
        s.link_overrides.push((peer_addr(a), peer_addr(b), gen_link(r)));
    }
    if r.chance(0.35) {
        // outage shorter than the (raised) disconnect timeout
        let a = r.range(1200, 4000);
        let len = r.pick(&[50u64, 100, 400, 1000, 3000]);
        let kinds = r.pick(&[0u16, 0, 1 << K_INPUT, 1 << K_ACK, (1 << K_INPUT) | (1 << K_ACK)]);
        s.link.outages.push(Outage { from_ms: a, to_ms: a + len, kinds });
    }
    for i in 0..s.peers.len() {
        let mut c = NodeCfg::default();
        c.skew = r.pick(&[0.0, 0.0, 0.01, 0.03, 0.1]) * if r.chance(0.5) { 1.0 } else { -0.5 };
        c.jitter_ms = r.pick(&[0u64, 2, 2, 8]);
        if r.chance(0.15) {
            let a = r.range(1000, 5000);
            c.pauses.push((a, a + r.pick(&[100u64, 300, 1000, 2500])));
        }
        // a late joiner: does nothing at all for the first while (handshake retries on the others)
        if r.chance(0.08) {
            c.pauses.push((0, r.range(200, 3000)));
        }
        // extra polls between advancing ticks: arrivals are then processed by poll_remote_clients,
        // not by advance_frame's own poll
        c.polls_per_tick = r.pick(&[1u64, 1, 1, 2, 4]);
        c.drain = r.chance(0.9);
        let _ = i;
        s.nodes.push(c);
    }
    s.start = if r.chance(0.8) { Start::Own } else { Start::AllRunning };
    // (derived from the scenario seed, so that no extra draw shifts the rest of the generation)
    // a quarter of the sessions run at 30 or 120 fps: every timer of the protocol is then in a different ratio to the tick
    s.fps = match (s.seed >> 11) % 8 {
        0 => 30,
        1 => 120,
        _ => 60,
    };
    // a sixth of the sessions are driven through the wait helpers, which in rollback mode must behave exactly like
    // advance_frame
    if (s.seed >> 17) % 6 == 0 {
        let w = 1 + ((s.seed >> 20) & 1) as u8;
        for c in s.nodes.iter_mut() {
            c.wait = w;
            c.wait_ms = 5;
        }
    }
    s
}

pub fn gen_link(r: &mut Rng) -> Link {
    Link {
        drop: r.pick(&[0.0, 0.0, 0.05, 0.2, 0.3]),
        dup: r.pick(&[0.0, 0.0, 0.1]),
        base_ms: r.pick(&[0u64, 5, 10, 40, 100]),
        jitter_ms: r.pick(&[0u64, 0, 5, 40, 60]),
        outages: vec![],
        faults: vec![],
        stragglers: vec![],
    }
}

pub fn scn_json(s: &Scn) -> Value {
    serde_json::to_value(s).unwrap_or(Value::Null)
}

/// Signature of what was observed: configuration bucket + hash of the observed schedule.
pub fn world_sig(c: &Core) -> u64 {
    let mut h = hash_str(&c.scn.bucket());
    for n in &c.nodes {
        h = mix(h, n.game.trace);
        h = mix(h, n.api_hash);
    }
    for (a, x) in &c.net.borrow().rx_hash {
        h = mix(h, (*a as u64) ^ *x);
    }
    h
}

/// Short description of a finished world for samples / witnesses.
pub fn world_desc(c: &Core) -> Value {
    let nodes: Vec<Value> = c
        .nodes
        .iter()
        .map(|n| {
            json!({"addr": n.addr, "spectator": n.is_spec, "frame": n.game.frame(), "confirmed": n.fin.confirmed_frame, "saves": n.game.c.saves, "loads": n.game.c.loads,
                "advances": n.game.c.advances, "max_rollback": n.game.c.max_depth, "errors": n.errs, "events": n.events.len()})
        })
        .collect();
    let st = c.net.borrow().stats.clone();
    json!({"scenario": scn_json(&c.scn), "nodes": nodes, "net": serde_json::to_value(&st).unwrap(), "virtual_ms": c.end_t.saturating_sub(T0) / MS, "hit_time_cap": c.hit_limit})
}

pub fn world_witness(c: &Core) -> Vec<String> {
    let mut w = vec![];
    for n in &c.nodes {
        w.push(format!(
            "node {} spec={} frame={} current={} confirmed={} cs={:?} last list [{}] errs={:?}",
            n.addr,
            n.is_spec,
            n.game.frame(),
            n.fin.current_frame,
            n.fin.confirmed_frame,
            n.fin.cs,
            n.game.last_call_str(),
            n.errs
        ));
        for (t, e) in n.events.iter().rev().take(12).rev() {
            w.push(format!("  event t={}ms {:?}", t.saturating_sub(T0) / MS, e));
        }
    }
    if let Some(l) = &c.net.borrow().log {
        for e in l.iter().rev().take(60).rev() {
            w.push(format!("  pkt t={}ms {}->{} {} {:?}", e.t.saturating_sub(T0) / MS, e.from, e.to, e.what, e.msg));
        }
    }
    w
}

/// Adds the standard observation counters of a world to an outcome.
pub fn absorb_obs(o: &mut Outcome, c: &Core) {
    let b = &c.obs;
    o.count("calls_ok", b.calls_ok);
    o.count("calls_err", b.calls_err);
    o.count("frames_checked_first_confirmation", b.frames_checked_c01);
    o.count("resimulated_confirmed_frames_checked", b.resim_checked_c01);
    o.count("states_compared_with_serial_replay", b.states_checked_c01);
    o.count("status_confirmed_seen", b.status_confirmed);
    o.count("status_predicted_seen", b.status_predicted);
    o.count("status_disconnected_seen", b.status_disconnected);
    o.count("mispredictions", b.predicted_wrong);
    o.count("correct_predictions", b.predicted_right);
    o.count("stalled_calls", b.stalls);
    o.count("new_frames", b.new_frames);
    let st = c.net.borrow().stats.clone();
    o.count("packets_sent", st.sent);
    o.count("packets_dropped", st.dropped_random + st.dropped_outage + st.dropped_script);
    o.count("packets_duplicated", st.duplicated);
    o.count("packets_delivered_out_of_order", st.delivered_out_of_order);
    o.count("straggling_late_duplicates", st.stragglers);
    o.count("input_packets_resending_frames", st.input_retransmissions);
    let mut loads = 0;
    for n in &c.nodes {
        loads += n.game.c.loads;
        o.count("saves", n.game.c.saves);
        o.count("advances", n.game.c.advances);
        o.count("resimulated_frames", n.game.c.resims);
        o.count("request_lists", n.game.c.lists);
        for (d, k) in n.game.c.load_depth.iter().enumerate() {
            if *k > 0 {
                o.count(&format!("rollbacks_depth_{d:02}"), *k);
            }
        }
        o.count("max_rollback_depth", n.game.c.max_depth as u64);
        o.count("loads_of_resaved_cells", n.game.c.loads_of_resaved);
        o.count("loads_of_stale_cells_executed_leniently", n.game.stale_loads);
    }
    if c.scn.no_checksum && c.scn.desync.is_none() {
        o.count("runs_saving_without_checksums", 1);
    }
    o.count("rollbacks", loads);
    if c.hit_limit {
        o.count("runs_cut_by_virtual_time_cap", 1);
    }
}

pub fn left_space_by_disconnect(c: &Core) -> bool {
    c.any_event(|e| matches!(e, Ev::Disconnected { .. })) || c.nodes.iter().any(|n| n.fin.cs.iter().any(|x| x.0))
}

/// Maps the violations found by the online oracles to the property under check: the property's
/// own oracle and panics are violations of the property (a session that panics delivers nothing).
pub fn take_viols(o: &mut Outcome, c: &Core, prop: &'static str, accept: &[&str]) {
    for v in &c.viols {
        if v.prop == prop || v.prop == "PANIC" || accept.contains(&v.prop) {
            let mut v2 = v.clone();
            v2.detail = format!("{} [node {} t={}ms]", v2.detail, v2.node, v2.t_ms);
            o.violate(v2);
        } else {
            // another property's oracle fired in this workload: not this check's verdict
            o.count(&format!("other_oracle_fired_{}", v.prop), 1);
            o.inconclusive(&format!("run stopped by the {} oracle", v.prop));
        }
    }
}

pub struct WCase {
    pub id: String,
    pub scn: Scn,
}
pub fn wcase(id: String, scn: Scn) -> WCase {
    WCase { id, scn }
}

/// Runs one world case for `prop` with the given oracles; `post` adds property-specific offline
/// checks and decides non-triviality.
pub fn run_world_case(c: &WCase, o: Oracles, prop: &'static str, accept: &[&str], post: &dyn Fn(&Core, &mut Outcome)) -> Outcome {
    run_world_case_hook(c, o, prop, accept, &mut |_, _, _| {}, post)
}

/// Like `run_world_case`, with a hook that runs before every tick (online measurements of the history).
pub fn run_world_case_hook(c: &WCase, o: Oracles, prop: &'static str, accept: &[&str], hook: &mut dyn FnMut(&mut Core, usize, u64), post: &dyn Fn(&Core, &mut Outcome)) -> Outcome {
    let w = run_scn_hook(&c.scn, o, false, hook);
    let mut out = Outcome::new(world_desc(&w));
    absorb_obs(&mut out, &w);
    take_viols(&mut out, &w, prop, accept);
    out.sig = world_sig(&w);
    post(&w, &mut out);
    if !matches!(out.verdict, Verdict::Held) {
        out.witness = world_witness(&w);
    }
    out
}

pub fn filter_cases(ctx: &Ctx, cs: Vec<WCase>) -> Vec<WCase> {
    cs.into_iter().filter(|c| ctx.only_case.as_ref().is_none_or(|o| *o == c.id)).collect()
}

pub fn std_assumptions() -> Vec<String> {
    vec![
        "virtual clock hook replaces instant::Instant (verif-hooks feature)".into(),
        "harness game, truth model and simulated network are trusted".into(),
        "held on the executions produced, not verified".into(),
    ]
}

/// One peer is starved of remote input: long outages (1 tick .. 50 s) towards it or a paused
/// remote. Windows 0..=12 (0 = lockstep), delays 0..=6 (including delay > window).
pub fn gen_starved(r: &mut Rng, frames: i32) -> Scn {
    let mut s = gen_c01_space(r, frames);
    s.mp = r.range(0, 12) as usize;
    s.delay = r.below(7) as usize;
    s.notify_ms = 100_000;
    s.timeout_ms = 120_000;
    s.link.outages.clear();
    s.link.drop = r.pick(&[0.0, 0.0, 0.05]);
    let n = s.peers.len();
    let victim = r.below(n as u64) as usize;
    let a = r.range(1200, 3000);
    let len = r.pick(&[17u64, 50, 200, 1000, 5000, 20_000, 50_000]);
    if r.chance(0.6) {
        // outage on every link into the victim
        for q in 0..n {
            if q != victim {
                let mut l = s.link.clone();
                l.outages.push(Outage { from_ms: a, to_ms: a + len, kinds: 0 });
                s.link_overrides.push((peer_addr(q), peer_addr(victim), l));
            }
        }
    } else {
        // another peer is paused
        let other = (victim + 1) % n;
        while s.nodes.len() <= other {
            s.nodes.push(NodeCfg::default());
        }
        s.nodes[other].pauses.push((a, a + len.min(20_000)));
    }
    if s.mp == 0 {
        for c in s.nodes.iter_mut() {
            c.wait = r.pick(&[0u8, 0, 1, 2]);
            c.wait_ms = r.pick(&[0u64, 1, 5, 16, 40]);
        }
    }
    s.limit_ms = (a + len + 20_000).max(40_000);
    s
}

/// Two-peer session in which peer 1 dies at a random moment after everybody is Running.
pub fn gen_death2(r: &mut Rng, frames: i32) -> Scn {
    let mut s = Scn::base(r.next());
    s.peers = if r.chance(0.5) { vec![vec![0], vec![1]] } else { r.pick(&[vec![vec![0, 2], vec![1, 3]], vec![vec![0, 1], vec![2]], vec![vec![0], vec![1, 2]]]) };
    s.pred = r.below(2) as u8;
    s.mp = r.pick(&[0usize, 1, 2, 3, 8, 12]);
    s.delay = r.below(4) as usize;
    s.sparse = r.chance(0.5);
    s.sticky = r.pick(&[1u32, 3, 10]);
    s.frames = frames;
    s.notify_ms = r.pick(&[100u64, 300, 500, 1000]);
    s.timeout_ms = s.notify_ms + r.pick(&[0u64, 200, 1500]);
    s.link = Link { drop: r.pick(&[0.0, 0.0, 0.05]), dup: r.pick(&[0.0, 0.1]), base_ms: r.pick(&[0u64, 10, 40]), jitter_ms: r.pick(&[0u64, 5]), outages: vec![], faults: vec![], stragglers: vec![] };
    s.kill = Some(Kill { node: 1, at_ms: r.range(1500, 3000), pdrop: r.pick(&[0.0, 0.5, 1.0]) });
    s.start = Start::AllRunning;
    s.settle_ms = 500;
    s
}

/// Events of a node in a canonical order for differential comparisons: grouped per remote address
/// (the interleaving of different addresses within one poll follows HashMap iteration order and is
/// unspecified), the events of one address in their original order.
pub fn canon_events(n: &Node) -> Vec<(u64, Ev)> {
    let mut v = n.events.clone();
    // (stable sort: the events of one address keep the order in which the session raised them, DesyncDetected included
    // since repair F9)
    v.sort_by_key(|(_, e)| match e {
        Ev::Wait { .. } => None,
        other => other.addr(),
    });
    v
}
