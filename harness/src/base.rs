//! Basic shared types: PRNG, input/state types, ggrs Config, wire mirror of ggrs::Message.
use ggrs::{Config, InputPredictor, Message};
use serde::{Deserialize, Serialize};
use std::marker::PhantomData;

pub const MS: u64 = 1_000_000;
/// Virtual time at which every world starts (1 s, so that "now - x" never underflows).
pub const T0: u64 = 1_000 * MS;

/// SplitMix64. Small, fast, and good enough for workload generation.
#[derive(Clone, Debug)]
pub struct Rng(pub u64);
impl Rng {
    pub fn new(s: u64) -> Self {
        Rng(s.wrapping_mul(0x9E37_79B9_7F4A_7C15) ^ 0xD1B5_4A32_D192_ED03)
    }
    pub fn next(&mut self) -> u64 {
        self.0 = self.0.wrapping_add(0x9E37_79B9_7F4A_7C15);
        let mut z = self.0;
        z = (z ^ (z >> 30)).wrapping_mul(0xBF58_476D_1CE4_E5B9);
        z = (z ^ (z >> 27)).wrapping_mul(0x94D0_49BB_1331_11EB);
        z ^ (z >> 31)
    }
    pub fn below(&mut self, n: u64) -> u64 {
        if n == 0 {
            0
        } else {
            self.next() % n
        }
    }
    pub fn range(&mut self, lo: u64, hi_incl: u64) -> u64 {
        lo + self.below(hi_incl - lo + 1)
    }
    pub fn chance(&mut self, p: f64) -> bool {
        ((self.next() >> 11) as f64 / ((1u64 << 53) as f64)) < p
    }
    pub fn pick<T: Clone>(&mut self, xs: &[T]) -> T {
        xs[self.below(xs.len() as u64) as usize].clone()
    }
    pub fn fork(&mut self, tag: u64) -> Rng {
        Rng::new(self.next() ^ tag.wrapping_mul(0xA24B_AED4_963E_E407))
    }
}

pub fn mix(mut h: u64, v: u64) -> u64 {
    h ^= v.wrapping_mul(0x9E37_79B9_7F4A_7C15);
    h = h.rotate_left(27).wrapping_mul(0x94D0_49BB_1331_11EB);
    h ^ (h >> 29)
}

pub type Addr = u16;
pub fn peer_addr(i: usize) -> Addr {
    i as Addr + 1
}
pub fn spec_addr(i: usize) -> Addr {
    100 + i as Addr
}

/// The input type of all simulated games: 4 bytes on the wire; 0 is the default input.
#[derive(Copy, Clone, PartialEq, Eq, Default, Serialize, Deserialize, Debug, Hash, PartialOrd, Ord)]
pub struct Inp(pub u32);

/// Game state of the hash-chain game: two states are equal iff the input histories are equal.
#[derive(Clone, Copy, Debug, PartialEq, Eq, Hash)]
pub struct GState {
    pub frame: i32,
    pub hash: u64,
}
impl GState {
    pub fn initial() -> GState {
        GState { frame: 0, hash: 0 }
    }
    pub fn checksum(&self) -> u128 {
        ((self.frame as u32 as u128) << 64) | self.hash as u128
    }
}

/// One step of the hash-chain game. `inputs` = (value, is-Disconnected) per player.
pub fn step(st: GState, inputs: &[(Inp, bool)]) -> GState {
    let mut h = mix(st.hash, st.frame as u64 ^ 0x5151_0000_0000);
    for (i, (v, d)) in inputs.iter().enumerate() {
        h = mix(h, ((i as u64) << 40) | ((*d as u64) << 32) | v.0 as u64);
    }
    GState { frame: st.frame + 1, hash: h }
}

pub trait Pred: InputPredictor<Inp> + 'static {
    const NAME: &'static str;
}
impl Pred for ggrs::PredictRepeatLast {
    const NAME: &'static str = "PredictRepeatLast";
}
impl Pred for ggrs::PredictDefault {
    const NAME: &'static str = "PredictDefault";
}

pub struct Cfg<P>(PhantomData<P>);
impl<P> std::fmt::Debug for Cfg<P> {
    fn fmt(&self, f: &mut std::fmt::Formatter<'_>) -> std::fmt::Result {
        write!(f, "Cfg")
    }
}
impl<P: Pred> Config for Cfg<P> {
    type Input = Inp;
    type InputPredictor = P;
    type State = GState;
    type Address = Addr;
}

// ------------------------------------------------------------------------------------------
// Wire mirror: same field order as ggrs::Message, so bincode converts in both directions.
// ------------------------------------------------------------------------------------------
#[derive(Serialize, Deserialize, Debug, Clone, PartialEq, Eq)]
pub struct WConn {
    pub disconnected: bool,
    pub last_frame: i32,
}
#[derive(Serialize, Deserialize, Debug, Clone, PartialEq, Eq)]
pub enum WBody {
    SyncRequest { r: u32 },
    SyncReply { r: u32 },
    Input { st: Vec<WConn>, disc: bool, start: i32, ack: i32, bytes: Vec<u8> },
    InputAck { ack: i32 },
    QualityReport { adv: i16, ping: u128 },
    QualityReply { pong: u128 },
    ChecksumReport { checksum: u128, frame: i32 },
    KeepAlive,
}
#[derive(Serialize, Deserialize, Debug, Clone, PartialEq, Eq)]
pub struct WMsg {
    pub magic: u16,
    pub body: WBody,
}
pub fn to_w(m: &Message) -> WMsg {
    bincode::deserialize(&bincode::serialize(m).expect("ser")).expect("wire mirror out of date")
}
pub fn from_w(w: &WMsg) -> Message {
    bincode::deserialize(&bincode::serialize(w).expect("ser")).expect("wire mirror out of date")
}
pub const K_SYNC_REQ: u8 = 0;
pub const K_SYNC_REP: u8 = 1;
pub const K_INPUT: u8 = 2;
pub const K_ACK: u8 = 3;
pub const K_QREP: u8 = 4;
pub const K_QRPL: u8 = 5;
pub const K_CHK: u8 = 6;
pub const K_KEEP: u8 = 7;
pub const KIND_NAMES: [&str; 8] =
    ["SyncRequest", "SyncReply", "Input", "InputAck", "QualityReport", "QualityReply", "ChecksumReport", "KeepAlive"];
pub fn kind(w: &WMsg) -> u8 {
    match w.body {
        WBody::SyncRequest { .. } => K_SYNC_REQ,
        WBody::SyncReply { .. } => K_SYNC_REP,
        WBody::Input { .. } => K_INPUT,
        WBody::InputAck { .. } => K_ACK,
        WBody::QualityReport { .. } => K_QREP,
        WBody::QualityReply { .. } => K_QRPL,
        WBody::ChecksumReport { .. } => K_CHK,
        WBody::KeepAlive => K_KEEP,
    }
}

/// Value submitted by player `h` for user frame `f`. Never 0; encodes the player in the top
/// nibble and the (held) frame number in the next 16 bits, so that values are unique per player
/// and submission and any mis-attribution of player or frame is visible; the low 12 bits are a
/// seed-dependent nonce.
pub fn input_value(seed: u64, h: usize, f: i32, sticky: u32) -> Inp {
    let k = if sticky > 1 { f as u64 / sticky as u64 } else { f as u64 };
    let mut r = Rng::new(seed ^ ((h as u64 + 1) << 48) ^ k.wrapping_mul(0x1_0001));
    Inp(((h as u32 + 1) << 28) | (((k as u32) & 0xFFFF) << 12) | (r.next() as u32 & 0xFFF))
}

// ------------------------------------------------------------------------------------------
// Panic capture: every ggrs API call is executed through `guarded`.
// ------------------------------------------------------------------------------------------
thread_local! {
    static LAST_PANIC: std::cell::RefCell<Option<(String, String)>> = const { std::cell::RefCell::new(None) };
}
#[derive(Clone, Debug, PartialEq, Eq)]
pub struct PanicInfo {
    pub msg: String,
    pub loc: String,
}
pub fn install_panic_hook() {
    std::panic::set_hook(Box::new(|info| {
        let msg = if let Some(s) = info.payload().downcast_ref::<&str>() {
            (*s).to_string()
        } else if let Some(s) = info.payload().downcast_ref::<String>() {
            s.clone()
        } else {
            "<non-string panic>".to_string()
        };
        let loc = info.location().map(|l| format!("{}:{}", l.file(), l.line())).unwrap_or_default();
        LAST_PANIC.with(|p| *p.borrow_mut() = Some((msg, loc)));
    }));
}
pub fn guarded<R>(f: impl FnOnce() -> R) -> Result<R, PanicInfo> {
    match std::panic::catch_unwind(std::panic::AssertUnwindSafe(f)) {
        Ok(r) => Ok(r),
        Err(_) => {
            let (msg, loc) = LAST_PANIC.with(|p| p.borrow_mut().take()).unwrap_or_default();
            Err(PanicInfo { msg, loc })
        }
    }
}

/// The harness's own, allocation-free view of a payload: the lengths of the frames it encodes,
/// or None if it is not a valid encoding (or declares more than 1 MiB). Deliberately independent
/// of the decoder under test, which must never be handed hostile bytes outside a monitored region.
pub fn ref_frame_lens(data: &[u8]) -> Option<Vec<usize>> {
    // pass 1: run-length layer -> list of (is_literal, offset, len), total length
    let mut runs: Vec<(bool, usize, usize)> = vec![];
    let mut off = 0usize;
    let mut total = 0usize;
    while off < data.len() {
        let mut header = 0u64;
        let mut shift = 0u32;
        loop {
            let b = *data.get(off)?;
            off += 1;
            if shift > 56 {
                return None;
            }
            header |= u64::from(b & 127) << shift;
            shift += 7;
            if b & 128 == 0 {
                break;
            }
        }
        let repeat = header & 1 == 1;
        let len = usize::try_from(if repeat { header >> 2 } else { header >> 1 }).ok()?;
        total = total.checked_add(len)?;
        if total > (1 << 20) {
            return None;
        }
        if repeat {
            runs.push((false, if header & 2 > 0 { 0xFF } else { 0 }, len));
        } else {
            if off.checked_add(len)? > data.len() {
                return None;
            }
            runs.push((true, off, len));
            off += len;
        }
    }
    // pass 2: walk the decoded byte stream without materialising it
    let byte_at = |pos: usize| -> u8 {
        let mut p = pos;
        for (lit, o, l) in &runs {
            if p < *l {
                return if *lit { data[*o + p] } else { *o as u8 };
            }
            p -= *l;
        }
        0
    };
    let mut lens = vec![];
    let mut pos = 0usize;
    while pos < total {
        if pos + 2 > total {
            return None;
        }
        let l = u16::from_le_bytes([byte_at(pos), byte_at(pos + 1)]) as usize;
        pos += 2;
        if pos + l > total {
            return None;
        }
        pos += l;
        lens.push(l);
        if lens.len() > 4096 {
            return None;
        }
    }
    Some(lens)
}

