//! Child processes for workloads that may abort (refused allocations, stack overflows): the same
//! binary is started with `worker <name> <json-args>`; it prints JSON lines on stdout.
use serde_json::Value;
use std::io::Read;
use std::process::{Command, Stdio};
use std::time::{Duration, Instant};

#[derive(Debug, Clone, PartialEq)]
pub enum ExitKind {
    Ok,
    Code(i32),
    Signal(i32),
    Timeout,
}
pub struct ChildResult {
    pub lines: Vec<Value>,
    pub exit: ExitKind,
    pub stderr: String,
}

pub fn run_child(name: &str, args: &Value, timeout: Duration) -> ChildResult {
    let exe = std::env::current_exe().expect("current_exe");
    let mut ch = Command::new(exe).arg("worker").arg(name).arg(args.to_string()).env("RUST_BACKTRACE", "0").stdin(Stdio::null()).stdout(Stdio::piped()).stderr(Stdio::piped()).spawn().expect("cannot spawn worker");
    let mut so = ch.stdout.take().unwrap();
    let mut se = ch.stderr.take().unwrap();
    let t_out = std::thread::spawn(move || {
        let mut s = String::new();
        let _ = so.read_to_string(&mut s);
        s
    });
    let t_err = std::thread::spawn(move || {
        let mut s = String::new();
        let _ = se.read_to_string(&mut s);
        s
    });
    let start = Instant::now();
    let exit = loop {
        match ch.try_wait() {
            Ok(Some(st)) => {
                use std::os::unix::process::ExitStatusExt;
                break if st.success() {
                    ExitKind::Ok
                } else if let Some(sig) = st.signal() {
                    ExitKind::Signal(sig)
                } else {
                    ExitKind::Code(st.code().unwrap_or(-1))
                };
            }
            Ok(None) => {
                if start.elapsed() > timeout {
                    let _ = ch.kill();
                    let _ = ch.wait();
                    break ExitKind::Timeout;
                }
                std::thread::sleep(Duration::from_millis(5));
            }
            Err(_) => break ExitKind::Code(-2),
        }
    };
    let out = t_out.join().unwrap_or_default();
    let err = t_err.join().unwrap_or_default();
    let lines = out.lines().filter_map(|l| serde_json::from_str::<Value>(l).ok()).collect();
    let tail: String = {
        // keep the allocator's marker lines and the last few lines
        let v: Vec<&str> = err.lines().collect();
        let mut keep: Vec<&str> = v.iter().copied().filter(|l| l.starts_with("ALLOC-CAP")).collect();
        keep.extend(v[v.len().saturating_sub(8)..].iter().copied().filter(|l| !l.starts_with("ALLOC-CAP")));
        keep.join("\n")
    };
    ChildResult { lines, exit, stderr: tail }
}

/// Parses "ALLOC-CAP size=<n> item=<m>" from a child's stderr.
pub fn alloc_cap_marker(stderr: &str) -> Option<(u64, u64)> {
    for l in stderr.lines() {
        if let Some(rest) = l.strip_prefix("ALLOC-CAP size=") {
            let mut it = rest.split(" item=");
            let size = it.next()?.trim().parse().ok()?;
            let item = it.next()?.trim().parse().ok()?;
            return Some((size, item));
        }
    }
    None
}
