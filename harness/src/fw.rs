//! Check framework: contexts, parallel case execution, three-valued verdicts, known findings,
//! evidence and replay files, exit codes.
use crate::world::Viol;
use serde_json::{json, Map, Value};
use std::collections::{BTreeMap, HashSet};
use std::sync::atomic::{AtomicUsize, Ordering};
use std::sync::Mutex;
use std::time::Instant;

/// The verification directory this binary belongs to (…/harness/target/<profile>/ggrs-verif -> …),
/// so that a snapshot of /verif run elsewhere reads its own known findings and writes its own
/// evidence; falls back to /verif.
pub fn verif_dir() -> String {
    if let Ok(d) = std::env::var("VERIF_HOME") {
        return d;
    }
    std::env::current_exe()
        .ok()
        .and_then(|e| e.parent()?.parent()?.parent()?.parent().map(|p| p.to_path_buf()))
        .filter(|p| p.join("known_findings.json").exists() || p.join("MANIFEST.json").exists())
        .map(|p| p.to_string_lossy().to_string())
        .unwrap_or_else(|| "/verif".to_string())
}

#[derive(Clone, Debug)]
pub struct Ctx {
    pub prop: String,
    pub tier: String,
    pub seed: u64,
    pub only_case: Option<String>,
    pub threads: usize,
    /// multiplies the number of random cases (for calibration runs; 1.0 in registered commands)
    pub scale: f64,
    pub verbose: bool,
    pub no_evidence: bool,
    /// keep going after many violations (calibration / statistics)
    pub no_stop: bool,
}
impl Ctx {
    pub fn quick(&self) -> bool {
        self.tier == "quick"
    }
    pub fn n(&self, quick: usize, thorough: usize) -> usize {
        let b = if self.quick() { quick } else { thorough };
        ((b as f64 * self.scale).ceil() as usize).max(1)
    }
}

#[derive(Clone, Debug)]
pub enum Verdict {
    Held,
    Violated(Vec<Viol>),
    Inconclusive(String),
}

#[derive(Clone, Debug)]
pub struct Outcome {
    pub verdict: Verdict,
    /// satisfied the property's non-triviality rule
    pub nontrivial: bool,
    /// signature for distinctness (configuration bucket + observed schedule)
    pub sig: u64,
    /// additive counters; keys starting with "max_" are merged with max
    pub counters: BTreeMap<String, u64>,
    /// a written-out description of the case (used as evidence sample and in replay files)
    pub sample: Value,
    /// extra witness text (log tail) for replay files
    pub witness: Vec<String>,
    /// the sample carries data the caller unpacks (results of a child process): never strip it
    pub keep_sample: bool,
}
impl Outcome {
    pub fn new(sample: Value) -> Outcome {
        Outcome { verdict: Verdict::Held, nontrivial: false, sig: 0, counters: BTreeMap::new(), sample, witness: vec![], keep_sample: false }
    }
    pub fn count(&mut self, k: &str, v: u64) {
        if k.starts_with("max_") {
            let e = self.counters.entry(k.to_string()).or_default();
            *e = (*e).max(v);
        } else {
            *self.counters.entry(k.to_string()).or_default() += v;
        }
    }
    pub fn violate(&mut self, v: Viol) {
        match &mut self.verdict {
            Verdict::Violated(l) => l.push(v),
            _ => self.verdict = Verdict::Violated(vec![v]),
        }
    }
    pub fn inconclusive(&mut self, why: &str) {
        if !matches!(self.verdict, Verdict::Violated(_)) {
            self.verdict = Verdict::Inconclusive(why.to_string());
        }
    }
}

pub struct Meta {
    pub level: &'static str,
    pub rule: String,
    pub assumptions: Vec<String>,
    /// minimum number of distinct non-trivial cases below which the run is inconclusive
    pub floor_nontrivial: usize,
    pub exhaustive: Option<bool>,
    pub extra: Map<String, Value>,
}

#[derive(Clone, Debug)]
pub struct KnownFinding {
    pub id: String,
    pub property: String,
    pub status: String,
    pub what_fails: String,
    pub clause_contains: Option<String>,
    pub detail_contains: Vec<String>,
    pub case_contains: Vec<String>,
}
pub fn load_known_findings() -> Vec<KnownFinding> {
    let path = format!("{}/known_findings.json", verif_dir());
    let Ok(txt) = std::fs::read_to_string(&path) else { return vec![] };
    let v: Value = serde_json::from_str(&txt).expect("known_findings.json is not valid JSON");
    let mut out = vec![];
    for e in v["findings"].as_array().cloned().unwrap_or_default() {
        let strs = |k: &str| -> Vec<String> { e["match"][k].as_array().map(|a| a.iter().filter_map(|x| x.as_str().map(String::from)).collect::<Vec<String>>()).unwrap_or_default() };
        out.push(KnownFinding {
            id: e["id"].as_str().unwrap_or("").to_string(),
            property: e["property"].as_str().unwrap_or("").to_string(),
            status: e["status"].as_str().unwrap_or("").to_string(),
            what_fails: e["what_fails"].as_str().unwrap_or("").to_string(),
            clause_contains: e["match"]["clause_contains"].as_str().map(String::from),
            detail_contains: strs("detail_contains"),
            case_contains: strs("case_contains"),
        });
    }
    out
}
impl KnownFinding {
    /// An open finding matches a violation iff every given matcher matches. Matchers are specific
    /// (clause, detail fragments such as the panic site, fragments of the case description).
    pub fn matches(&self, prop: &str, v: &Viol, case_text: &str) -> bool {
        if self.status != "open" || self.property != prop {
            return false;
        }
        if self.clause_contains.is_none() && self.detail_contains.is_empty() && self.case_contains.is_empty() {
            return false;
        }
        if let Some(c) = &self.clause_contains {
            if !v.clause.contains(c.as_str()) {
                return false;
            }
        }
        self.detail_contains.iter().all(|d| v.detail.contains(d.as_str())) && self.case_contains.iter().all(|d| case_text.contains(d.as_str()))
    }
}

pub fn viol_json(v: &Viol) -> Value {
    json!({"oracle": v.prop, "clause": v.clause, "detail": v.detail, "t_ms": v.t_ms, "node": v.node,
           "panic": v.panic.as_ref().map(|p| json!({"msg": p.msg, "loc": p.loc}))})
}

pub struct CaseResult {
    pub id: String,
    pub out: Outcome,
}

/// Runs all cases on `ctx.threads` worker threads. Every worker owns its worlds and its virtual clock.
pub fn par_run<C: Sync>(ctx: &Ctx, cases: &[C], id: &(dyn Fn(&C) -> String + Sync), run: &(dyn Fn(&C) -> Outcome + Sync)) -> Vec<CaseResult> {
    let known = load_known_findings();
    let known = &known;
    let next = AtomicUsize::new(0);
    let results: Mutex<Vec<(usize, CaseResult)>> = Mutex::new(Vec::with_capacity(cases.len()));
    let stop = AtomicUsize::new(0);
    let nthreads = ctx.threads.min(cases.len().max(1));
    std::thread::scope(|sc| {
        for _ in 0..nthreads {
            sc.spawn(|| loop {
                let i = next.fetch_add(1, Ordering::Relaxed);
                if i >= cases.len() || stop.load(Ordering::Relaxed) > 50 {
                    break;
                }
                let c = &cases[i];
                let cid = id(c);
                let out = match crate::base::guarded(|| run(c)) {
                    Ok(o) => o,
                    Err(p) => {
                        // a panic outside a guarded ggrs call is a harness error, never a violation
                        let mut o = Outcome::new(json!({"case": cid}));
                        o.inconclusive(&format!("harness error: {} at {}", p.msg, p.loc));
                        o
                    }
                };
                if let Verdict::Violated(vs) = &out.verdict {
                    // violations matching an open known finding do not count towards the early stop
                    let case_text = out.sample.to_string();
                    if !ctx.no_stop && vs.iter().any(|v| !known.iter().any(|k| k.matches(&ctx.prop, v, &case_text))) {
                        stop.fetch_add(1, Ordering::Relaxed);
                    }
                }
                // memory: written-out samples are only needed for the first few held cases
                let mut out = out;
                let strip = match &out.verdict {
                    Verdict::Held => true,
                    // cases failing only with listed findings are kept as counts, not as witnesses
                    Verdict::Violated(vs) => {
                        let case_text = out.sample.to_string();
                        known.iter().all(|k| k.case_contains.is_empty()) && vs.iter().all(|v| known.iter().any(|k| k.matches(&ctx.prop, v, &case_text)))
                    }
                    Verdict::Inconclusive(_) => true,
                };
                if i >= 48 && strip && !out.keep_sample {
                    out.sample = Value::Null;
                    out.witness = vec![];
                }
                results.lock().unwrap().push((i, CaseResult { id: cid, out }));
            });
        }
    });
    let mut r = results.into_inner().unwrap();
    r.sort_by_key(|x| x.0);
    r.into_iter().map(|x| x.1).collect()
}

pub struct Report {
    pub exit: i32,
}

/// Aggregates case results, applies known findings, writes evidence and replay files, prints the
/// verdict lines and returns the exit code (0 held / 1 violation / 2 inconclusive).
pub fn conclude(ctx: &Ctx, meta: Meta, results: Vec<CaseResult>, started: Instant) -> Report {
    let known = load_known_findings();
    let mut counters: BTreeMap<String, u64> = BTreeMap::new();
    let mut sigs: HashSet<u64> = HashSet::new();
    let mut samples: Vec<Value> = vec![];
    let mut inconclusive: BTreeMap<String, u64> = BTreeMap::new();
    let mut n_inconclusive = 0u64;
    let mut new_viol: Vec<(String, Viol, Value, Vec<String>)> = vec![];
    let mut known_hits: BTreeMap<String, (String, u64, String)> = BTreeMap::new();
    let evaluations = results.len();
    for r in &results {
        for (k, v) in &r.out.counters {
            if k.starts_with("max_") {
                let e = counters.entry(k.clone()).or_default();
                *e = (*e).max(*v);
            } else {
                *counters.entry(k.clone()).or_default() += v;
            }
        }
        match &r.out.verdict {
            Verdict::Held => {
                if r.out.nontrivial && sigs.insert(r.out.sig) && samples.len() < 3 {
                    samples.push(json!({"case": r.id, "desc": r.out.sample}));
                }
            }
            Verdict::Inconclusive(why) => {
                n_inconclusive += 1;
                let key: String = why.chars().take(80).collect();
                *inconclusive.entry(key).or_default() += 1;
            }
            Verdict::Violated(vs) => {
                let case_text = r.out.sample.to_string();
                for v in vs {
                    if let Some(k) = known.iter().find(|k| k.matches(&ctx.prop, v, &case_text)) {
                        let e = known_hits.entry(k.id.clone()).or_insert((k.what_fails.clone(), 0, r.id.clone()));
                        e.1 += 1;
                        // a case failing with a listed finding was explored all the same
                        if r.out.nontrivial && sigs.insert(r.out.sig) && samples.len() < 3 {
                            samples.push(json!({"case": r.id, "desc": r.out.sample, "note": format!("fails with known finding {}", k.id)}));
                        }
                    } else {
                        new_viol.push((r.id.clone(), v.clone(), r.out.sample.clone(), r.out.witness.clone()));
                    }
                }
            }
        }
    }
    if samples.is_empty() {
        if let Some(r) = results.first() {
            samples.push(json!({"case": r.id, "desc": r.out.sample, "note": "no non-trivial case in this run"}));
        }
    }
    let distinct = sigs.len();
    let wall = started.elapsed().as_secs_f64();
    // ---- replay files for new violations
    let mut replay_paths = vec![];
    if !new_viol.is_empty() {
        let dir = format!("{}/replays", verif_dir());
        let _ = std::fs::create_dir_all(&dir);
        for (i, (cid, v, sample, witness)) in new_viol.iter().enumerate().take(5) {
            let safe: String = cid.chars().map(|c| if c.is_ascii_alphanumeric() || c == '-' { c } else { '_' }).collect();
            let path = format!("{dir}/{}-{}-{}-{}.json", ctx.prop, ctx.seed, safe, i);
            let doc = json!({"property": ctx.prop, "tier": ctx.tier, "seed": ctx.seed, "case": cid, "violation": viol_json(v), "case_desc": sample, "witness": witness,
                "replay_cmd": format!("./check {} --tier {} --replay {}", ctx.prop, ctx.tier, path)});
            let _ = std::fs::write(&path, serde_json::to_string_pretty(&doc).unwrap());
            replay_paths.push(path);
        }
    }
    // ---- evidence
    let mut cov = Map::new();
    cov.insert("evaluations".into(), json!(evaluations));
    cov.insert("distinct_nontrivial".into(), json!(distinct));
    cov.insert("rule".into(), json!(meta.rule));
    cov.insert("samples".into(), Value::Array(samples));
    if let Some(e) = meta.exhaustive {
        cov.insert("exhaustive".into(), json!(e));
    }
    cov.insert("observed".into(), json!(counters));
    cov.insert("inconclusive_cases".into(), json!(n_inconclusive));
    cov.insert("inconclusive_reasons".into(), json!(inconclusive));
    cov.insert("known_findings_matched".into(), json!(known_hits.iter().map(|(k, v)| json!({"id": k, "what_fails": v.0, "occurrences": v.1, "first_case": v.2})).collect::<Vec<_>>()));
    for (k, v) in meta.extra {
        cov.insert(k, v);
    }
    let doc = json!({
        "property_id": ctx.prop,
        "tier": ctx.tier,
        "seed": ctx.seed,
        "level": meta.level,
        "coverage": Value::Object(cov),
        "assumptions": meta.assumptions,
        "wall_s": (wall * 100.0).round() / 100.0,
        "violations": new_viol.len(),
    });
    if ctx.only_case.is_none() && !ctx.no_evidence {
        let dir = format!("{}/evidence", verif_dir());
        let _ = std::fs::create_dir_all(&dir);
        let path = format!("{dir}/{}.json", ctx.prop);
        let tmp = format!("{path}.tmp");
        std::fs::write(&tmp, serde_json::to_string_pretty(&doc).unwrap()).expect("cannot write evidence");
        std::fs::rename(&tmp, &path).expect("cannot move evidence into place");
    }
    // ---- verdict lines
    println!("[{}] tier={} seed={} cases={} distinct_nontrivial={} inconclusive={} wall={:.1}s", ctx.prop, ctx.tier, ctx.seed, evaluations, distinct, n_inconclusive, wall);
    if ctx.verbose {
        for (k, v) in &counters {
            println!("    {k} = {v}");
        }
        for (k, v) in &inconclusive {
            println!("    inconclusive x{v}: {k}");
        }
    }
    for (id, (what, n, first)) in &known_hits {
        println!("KNOWN-FINDING: property={} {} [{}; {} occurrence(s), first in case {}]", ctx.prop, what, id, n, first);
    }
    if !new_viol.is_empty() {
        if ctx.verbose {
            let mut hist: BTreeMap<String, u64> = BTreeMap::new();
            for (_, v, _, _) in &new_viol {
                let norm: String = v.detail.chars().map(|c| if c.is_ascii_digit() { '#' } else { c }).collect::<String>().replace("##", "#").replace("##", "#");
                let key: String = format!("[{}] {} -- {}", v.prop, v.clause, norm.chars().take(110).collect::<String>());
                *hist.entry(key).or_default() += 1;
            }
            let mut hv: Vec<_> = hist.into_iter().collect();
            hv.sort_by_key(|x| std::cmp::Reverse(x.1));
            for (k, n) in hv.iter().take(25) {
                println!("    x{n}: {k}");
            }
        }
        for (i, (cid, v, _, _)) in new_viol.iter().enumerate() {
            if i < 5 {
                println!("VIOLATION property={} replay={}", ctx.prop, replay_paths.get(i).cloned().unwrap_or_default());
                println!("    case {cid}: [{}] {} -- {}", v.prop, v.clause, v.detail);
            }
        }
        if new_viol.len() > 5 {
            println!("    ... and {} more violation(s)", new_viol.len() - 5);
        }
        return Report { exit: 1 };
    }
    if ctx.only_case.is_none() && distinct < meta.floor_nontrivial {
        println!("INCONCLUSIVE property={} only {} distinct non-trivial cases (floor {})", ctx.prop, distinct, meta.floor_nontrivial);
        return Report { exit: 2 };
    }
    println!("HELD property={} on everything explored", ctx.prop);
    Report { exit: 0 }
}

pub fn hash_str(s: &str) -> u64 {
    let mut h = 0xcbf2_9ce4_8422_2325u64;
    for b in s.bytes() {
        h ^= b as u64;
        h = h.wrapping_mul(0x100_0000_01b3);
    }
    h
}

// ---- (de)serialisation of outcomes for worker processes
pub fn outcome_to_json(id: &str, o: &Outcome) -> Value {
    let (verdict, detail): (&str, Value) = match &o.verdict {
        Verdict::Held => ("held", Value::Null),
        Verdict::Inconclusive(w) => ("inconclusive", json!(w)),
        Verdict::Violated(vs) => ("violated", Value::Array(vs.iter().map(viol_json).collect())),
    };
    json!({"case": id, "verdict": verdict, "detail": detail, "nontrivial": o.nontrivial, "sig": o.sig.to_string(), "counters": o.counters, "sample": o.sample, "witness": o.witness})
}
pub fn outcome_from_json(v: &Value, prop: &'static str) -> Option<CaseResult> {
    let id = v["case"].as_str()?.to_string();
    let mut o = Outcome::new(v["sample"].clone());
    o.nontrivial = v["nontrivial"].as_bool().unwrap_or(false);
    o.sig = v["sig"].as_str().and_then(|s| s.parse().ok()).unwrap_or(0);
    if let Some(c) = v["counters"].as_object() {
        for (k, n) in c {
            o.counters.insert(k.clone(), n.as_u64().unwrap_or(0));
        }
    }
    o.witness = v["witness"].as_array().map(|a| a.iter().filter_map(|x| x.as_str().map(String::from)).collect()).unwrap_or_default();
    match v["verdict"].as_str()? {
        "held" => {}
        "inconclusive" => o.verdict = Verdict::Inconclusive(v["detail"].as_str().unwrap_or("").to_string()),
        _ => {
            let vs = v["detail"].as_array().cloned().unwrap_or_default();
            o.verdict = Verdict::Violated(
                vs.iter()
                    .map(|x| Viol {
                        prop: match x["oracle"].as_str().unwrap_or("") {
                            "PANIC" => "PANIC",
                            _ => prop,
                        },
                        clause: x["clause"].as_str().unwrap_or("").to_string(),
                        detail: x["detail"].as_str().unwrap_or("").to_string(),
                        t_ms: x["t_ms"].as_u64().unwrap_or(0),
                        node: x["node"].as_u64().unwrap_or(0) as u16,
                        panic: None,
                    })
                    .collect(),
            );
        }
    }
    Some(CaseResult { id, out: o })
}
