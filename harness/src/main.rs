mod alloc;
mod base;
mod child;
mod fw;
mod game;
mod gen;
mod net;
mod props;
mod scn;
mod truth;
mod world;

use fw::Ctx;

#[global_allocator]
static GLOBAL: alloc::Counting = alloc::Counting;

fn usage() -> ! {
    eprintln!("usage: ggrs-verif check <ID> [--tier quick|thorough] [--seed N] [--case ID] [--replay FILE] [--scale X] [-v] [--no-evidence]");
    std::process::exit(2);
}

fn main() {
    base::install_panic_hook();
    let args: Vec<String> = std::env::args().collect();
    if args.len() >= 4 && args[1] == "worker" {
        // child process for workloads that may abort: counting allocator on, 256 MiB cap per request
        let a: serde_json::Value = serde_json::from_str(&args[3]).expect("worker args are not JSON");
        alloc::enable(256 << 20);
        // a runaway worker must die instead of exhausting the machine
        unsafe {
            let lim = libc::rlimit { rlim_cur: 3 << 30, rlim_max: 3 << 30 };
            libc::setrlimit(libc::RLIMIT_AS, &lim);
        }
        match args[2].as_str() {
            "c14sweep" => props::c14::worker_sweep(&a),
            "c14hostile" => props::c14::worker_hostile(&a),
            "c08world" => props::c08::worker(&a),
            other => {
                eprintln!("unknown worker {other}");
                std::process::exit(2);
            }
        }
        return;
    }
    if args.len() >= 2 && args[1] == "miri-shard" {
        std::process::exit(props::miri::run());
    }
    if args.len() >= 3 && args[1] == "run-scn" {
        // debugging aid: run the scenario stored in a replay file (or a bare scenario JSON) with all basic oracles
        let txt = std::fs::read_to_string(&args[2]).expect("cannot read file");
        let v: serde_json::Value = serde_json::from_str(&txt).expect("not JSON");
        let sv = if v.get("case_desc").is_some() { v["case_desc"]["scenario"].clone() } else { v };
        let mut s: scn::Scn = serde_json::from_value(sv).expect("not a scenario");
        s.keep_log = true;
        let all = args.get(3).is_none_or(|a| a != "--no-oracles");
        let o = if all { world::Oracles { c12_running: false, ..world::Oracles::all_basic() } } else { world::Oracles::default() };
        let c = world::run_scn(&s, o);
        for vv in &c.viols {
            println!("VIOL [{}] {} -- {} [node {} t={}ms]", vv.prop, vv.clause, vv.detail, vv.node, vv.t_ms);
        }
        for l in gen::world_witness(&c) {
            println!("{l}");
        }
        if args.iter().any(|a| a == "--log") {
            if let Some(l) = &c.net.borrow().log {
                for e in l.iter() {
                    println!("pkt t={}ms {}->{} {} {:?}", (e.t - base::T0) / base::MS, e.from, e.to, e.what, e.msg);
                }
            }
        }
        println!("end t={}ms hit_limit={}", (c.end_t - base::T0) / base::MS, c.hit_limit);
        return;
    }
    if args.len() < 3 || args[1] != "check" {
        usage();
    }
    let prop = args[2].to_uppercase();
    let mut ctx = Ctx {
        prop: prop.clone(),
        tier: std::env::var("VERIF_TIER").ok().filter(|t| t == "quick" || t == "thorough").unwrap_or_else(|| "quick".into()),
        seed: std::env::var("VERIF_SEED").ok().and_then(|s| s.trim().parse::<i64>().ok()).map(|x| x as u64).unwrap_or(0),
        only_case: None,
        threads: std::thread::available_parallelism().map(|n| n.get()).unwrap_or(8).min(16),
        scale: 1.0,
        verbose: false,
        no_evidence: false,
        no_stop: false,
    };
    let mut i = 3;
    while i < args.len() {
        match args[i].as_str() {
            "--tier" => {
                i += 1;
                ctx.tier = args.get(i).cloned().unwrap_or_else(|| usage());
            }
            "--seed" => {
                i += 1;
                ctx.seed = args.get(i).and_then(|s| s.parse::<i64>().ok()).map(|x| x as u64).unwrap_or_else(|| usage());
            }
            "--case" => {
                i += 1;
                ctx.only_case = Some(args.get(i).cloned().unwrap_or_else(|| usage()));
            }
            "--scale" => {
                i += 1;
                ctx.scale = args.get(i).and_then(|s| s.parse().ok()).unwrap_or_else(|| usage());
            }
            "--threads" => {
                i += 1;
                ctx.threads = args.get(i).and_then(|s| s.parse().ok()).unwrap_or_else(|| usage());
            }
            "--replay" => {
                i += 1;
                let path = args.get(i).cloned().unwrap_or_else(|| usage());
                let txt = std::fs::read_to_string(&path).expect("cannot read replay file");
                let v: serde_json::Value = serde_json::from_str(&txt).expect("replay file is not JSON");
                ctx.only_case = v["case"].as_str().map(String::from);
                ctx.seed = v["seed"].as_u64().unwrap_or(ctx.seed);
                if let Some(t) = v["tier"].as_str() {
                    ctx.tier = t.to_string();
                }
                ctx.verbose = true;
            }
            "-v" => ctx.verbose = true,
            "--no-evidence" => ctx.no_evidence = true,
            "--no-stop" => ctx.no_stop = true,
            _ => usage(),
        }
        i += 1;
    }
    if ctx.tier != "quick" && ctx.tier != "thorough" {
        usage();
    }
    // wall-clock watchdog around the whole check: its firing is inconclusive, never a violation
    {
        let limit = std::time::Duration::from_secs(if ctx.quick() { 30 * 60 } else { 6 * 3600 });
        let p = prop.clone();
        std::thread::spawn(move || {
            std::thread::sleep(limit);
            println!("INCONCLUSIVE property={p} wall-clock watchdog fired after {} s (a call did not return?)", limit.as_secs());
            std::process::exit(2);
        });
    }
    let code = match prop.as_str() {
        "C01" => props::c01::check(&ctx),
        "C02" => props::c02::check(&ctx),
        "C03" => props::c03::check(&ctx),
        "C04" => props::c04::check(&ctx),
        "C05" => props::c05::check(&ctx),
        "C06" => props::c06::check(&ctx),
        "C07" => props::c07::check(&ctx),
        "C08" => props::c08::check(&ctx),
        "C09" => props::c09::check(&ctx),
        "C10" => props::c10::check(&ctx),
        "C11" => props::c11::check(&ctx),
        "C12" => props::c12::check(&ctx),
        "C13" => props::c13::check(&ctx),
        "C14" => props::c14::check(&ctx),
        "C15" => props::c15::check(&ctx),
        "C16" => props::c16::check(&ctx),
        "C17" => props::c17::check(&ctx),
        "C18" => props::c18::check(&ctx),
        _ => {
            eprintln!("unknown property {prop}");
            2
        }
    };
    std::process::exit(code);
}
