//! The simulated world: nodes (P2P sessions and spectators) driven by a virtual clock over the
//! simulated network, with the online oracles that need to look at every call.
use crate::base::*;
use crate::game::*;
use crate::net::*;
use crate::scn::*;
use crate::truth::*;
use ggrs::verif_hooks as vh;
use ggrs::*;
use std::cell::RefCell;
use std::collections::BTreeMap;
use std::rc::Rc;
use std::time::Duration;

pub enum Sess<P: Pred> {
    P2P(P2PSession<Cfg<P>>),
    Spec(SpectatorSession<Cfg<P>>),
}

#[derive(Clone, Debug, PartialEq, Eq)]
pub enum Ev {
    Synchronizing { addr: Addr, total: u32, count: u32 },
    Synchronized { addr: Addr },
    Disconnected { addr: Addr },
    Interrupted { addr: Addr, timeout: u128 },
    Resumed { addr: Addr },
    Wait { skip: u32 },
    Desync { frame: i32, local: u128, remote: u128, addr: Addr },
}
/// Number of handshake round trips the library announces as `total` in its Synchronizing events, learnt from the events
/// themselves (0 = none seen yet in this process). The property ties Running to "as many matched round trips as the
/// Synchronizing events announce", not to a particular number.
pub static SYNC_TOTAL: std::sync::atomic::AtomicU32 = std::sync::atomic::AtomicU32::new(0);
pub fn sync_total() -> u32 {
    SYNC_TOTAL.load(std::sync::atomic::Ordering::Relaxed)
}
impl Ev {
    pub fn from<P: Pred>(e: GgrsEvent<Cfg<P>>) -> Ev {
        match e {
            GgrsEvent::Synchronizing { addr, total, count } => {
                SYNC_TOTAL.store(total, std::sync::atomic::Ordering::Relaxed);
                Ev::Synchronizing { addr, total, count }
            }
            GgrsEvent::Synchronized { addr } => Ev::Synchronized { addr },
            GgrsEvent::Disconnected { addr } => Ev::Disconnected { addr },
            GgrsEvent::NetworkInterrupted { addr, disconnect_timeout } => Ev::Interrupted { addr, timeout: disconnect_timeout },
            GgrsEvent::NetworkResumed { addr } => Ev::Resumed { addr },
            GgrsEvent::WaitRecommendation { skip_frames } => Ev::Wait { skip: skip_frames },
            GgrsEvent::DesyncDetected { frame, local_checksum, remote_checksum, addr } => Ev::Desync { frame, local: local_checksum, remote: remote_checksum, addr },
        }
    }
    pub fn addr(&self) -> Option<Addr> {
        match self {
            Ev::Synchronizing { addr, .. } | Ev::Synchronized { addr } | Ev::Disconnected { addr } | Ev::Interrupted { addr, .. } | Ev::Resumed { addr } => Some(*addr),
            Ev::Wait { .. } | Ev::Desync { .. } => None,
        }
    }
    pub fn kind_name(&self) -> &'static str {
        match self {
            Ev::Synchronizing { .. } => "Synchronizing",
            Ev::Synchronized { .. } => "Synchronized",
            Ev::Disconnected { .. } => "Disconnected",
            Ev::Interrupted { .. } => "NetworkInterrupted",
            Ev::Resumed { .. } => "NetworkResumed",
            Ev::Wait { .. } => "WaitRecommendation",
            Ev::Desync { .. } => "DesyncDetected",
        }
    }
}

#[derive(Clone, Copy, Debug)]
pub struct FaRec {
    pub t: u64,
    pub frame: i32,
    pub fa: i32,
    /// network_stats() of the first remote: ping (-1 = no numbers), remote frames behind
    pub ping: i64,
    pub rfb: i32,
}

#[derive(Clone, Debug)]
pub struct Viol {
    pub prop: &'static str,
    pub clause: String,
    pub detail: String,
    pub t_ms: u64,
    pub node: Addr,
    pub panic: Option<PanicInfo>,
}

#[derive(Clone, Copy, Debug, Default)]
pub struct Oracles {
    pub c01: bool,
    pub c02: bool,
    pub c02_saved: bool,
    pub c03: bool,
    pub c04: bool,
    /// spectator frames are compared online against the truth (valid while nobody is disconnected)
    pub c06: bool,
    /// Running <=> every remote has completed `total` matched round trips
    pub c12_running: bool,
    /// advance_frame returns NotSynchronized exactly while the session is not Running
    pub c12_notsync: bool,
}
impl Oracles {
    pub fn all_basic() -> Oracles {
        Oracles { c01: true, c02: true, c02_saved: true, c03: true, c04: true, c06: true, c12_running: false, c12_notsync: false }
    }
}

#[derive(Clone, Debug, Default)]
pub struct SizeMax {
    pub event_queue: usize,
    pub pending_local_inputs: usize,
    pub outgoing_local_inputs: usize,
    pub local_checksum_history: usize,
    pub ep_send_queue_after_call: usize,
    pub ep_event_queue: usize,
    pub pending_output_remote: usize,
    pub pending_output_spectator: usize,
    pub recv_inputs: usize,
    pub pending_checksums: usize,
    pub sync_random_requests: usize,
    pub samples: u64,
}
impl SizeMax {
    pub fn absorb(&mut self, s: &vh::SessionSizes) {
        self.samples += 1;
        self.event_queue = self.event_queue.max(s.event_queue);
        self.pending_local_inputs = self.pending_local_inputs.max(s.pending_local_inputs);
        self.outgoing_local_inputs = self.outgoing_local_inputs.max(s.outgoing_local_inputs);
        self.local_checksum_history = self.local_checksum_history.max(s.local_checksum_history);
        for e in &s.remotes {
            self.pending_output_remote = self.pending_output_remote.max(e.pending_output);
        }
        for e in &s.spectators {
            self.pending_output_spectator = self.pending_output_spectator.max(e.pending_output);
        }
        for e in s.remotes.iter().chain(s.spectators.iter()) {
            self.ep_send_queue_after_call = self.ep_send_queue_after_call.max(e.send_queue);
            self.ep_event_queue = self.ep_event_queue.max(e.event_queue);
            self.recv_inputs = self.recv_inputs.max(e.recv_inputs);
            self.pending_checksums = self.pending_checksums.max(e.pending_checksums);
            self.sync_random_requests = self.sync_random_requests.max(e.sync_random_requests);
        }
    }
}

/// Per-world observation counters (what the monitors actually looked at).
#[derive(Clone, Debug, Default)]
pub struct Obs {
    pub calls_ok: u64,
    pub calls_err: u64,
    pub frames_checked_c01: u64,
    pub resim_checked_c01: u64,
    pub states_checked_c01: u64,
    pub status_confirmed: u64,
    pub status_predicted: u64,
    pub status_disconnected: u64,
    pub predicted_wrong: u64,
    pub predicted_right: u64,
    pub predicted_though_received: u64,
    pub final_rechecks: u64,
    pub stalls: u64,
    pub new_frames: u64,
    /// histogram of (new frame N - confirmed frame) at first simulations; index = distance
    pub c04_dist: [u64; 20],
    pub c04_at_limit: u64,
    pub c04_indep_checks: u64,
    pub lockstep_stalls: u64,
    pub lockstep_advances: u64,
    pub saved_invariant_checks: u64,
    pub cells_inspected: u64,
    pub spec_frames_checked: u64,
    pub spec_catchup_calls: u64,
    pub spec_waits: u64,
    pub spec_too_far_behind: u64,
    pub running_checks: u64,
    pub notsync_checks: u64,
    pub size_samples: u64,
    pub actions_done: u64,
}

pub struct Node {
    pub idx: usize,
    pub addr: Addr,
    pub is_spec: bool,
    pub host: Option<usize>,
    pub locals: Vec<usize>,
    pub game: Game,
    pub cfg: NodeCfg,
    pub spec: Option<SpecCfg>,
    pub rng: Rng,
    pub next_tick: u64,
    pub period: u64,
    pub tick_no: u64,
    pub alive: bool,
    pub events: Vec<(u64, Ev)>,
    pub errs: BTreeMap<String, u64>,
    pub running_at: Option<u64>,
    pub reached_target_at: Option<u64>,
    pub checked_upto: i32,
    pub conf_max: i32,
    pub final_hash: Vec<u64>,
    /// (virtual time, game frame) at every tick on which the frame changed
    pub frame_times: Vec<(u64, i32)>,
    /// time-sync observations after every Ok advancing call (only if log_fa)
    pub fa_log: Vec<FaRec>,
    /// results of network_stats() sampled at every tick (only if log_fa): first Ok time, errors seen before
    /// (time, local_frames_behind) after every tick incl. poll-only ticks, once stats are available (only if log_fa)
    pub lfb_log: Vec<(u64, i32)>,
    pub stats_first_ok: Option<u64>,
    pub stats_errs_before_ok: BTreeMap<String, u64>,
    pub spec_adv_log: Vec<(usize, usize)>,
    pub action_log: Vec<(usize, String)>,
    pub api_hash: u64,
    pub sizes: SizeMax,
    pub last_save_frame: i32,
    pub sync_requests_at_running: Option<usize>,
    /// connection status after the first tick in which some player was flagged disconnected
    pub cs_at_first_disconnect: Option<Vec<(bool, i32)>>,
    /// local handles whose input for this tick was already added by a scripted action
    pub inputs_already_added: Vec<usize>,
    pub fin: Final,
}

/// Snapshot of the session's public state, refreshed after every tick.
#[derive(Clone, Debug, Default)]
pub struct Final {
    pub current_frame: i32,
    pub confirmed_frame: i32,
    pub cs: Vec<(bool, i32)>,
    pub running: bool,
    pub frames_behind_host: usize,
    pub sizes: vh::SessionSizes,
    pub undrained_events: usize,
}

pub struct World<P: Pred> {
    pub core: Core,
    pub sess: Vec<Sess<P>>,
}
impl<P: Pred> std::ops::Deref for World<P> {
    type Target = Core;
    fn deref(&self) -> &Core {
        &self.core
    }
}
impl<P: Pred> std::ops::DerefMut for World<P> {
    fn deref_mut(&mut self) -> &mut Core {
        &mut self.core
    }
}

/// Everything about a world except the (generic) sessions; this is what checks analyse.
pub struct Core {
    pub scn: Scn,
    pub np: usize,
    pub nodes: Vec<Node>,
    pub net: Rc<RefCell<Net>>,
    pub truth: Truth,
    pub oracles: Oracles,
    pub obs: Obs,
    pub viols: Vec<Viol>,
    pub actions_done: Vec<bool>,
    pub killed_at: Option<u64>,
    pub killed2_at: Option<u64>,
    pub end_t: u64,
    pub hit_limit: bool,
    pub log_fa: bool,
    /// every per-tick hook, for property-specific extra monitors: (node idx, time)
    pub inject_rng: Rng,
    pub injections: Vec<(u64, String)>,
    /// largest peak of live bytes allocated inside a single ggrs call / largest single request
    /// (only measured when the counting allocator is enabled, i.e. in worker processes)
    pub alloc_peak_max: i64,
    pub alloc_largest_max: usize,
}

fn err_name(e: &GgrsError) -> String {
    match e {
        GgrsError::PredictionThreshold => "PredictionThreshold".into(),
        GgrsError::InvalidRequest { .. } => "InvalidRequest".into(),
        GgrsError::MismatchedChecksum { .. } => "MismatchedChecksum".into(),
        GgrsError::NotSynchronized => "NotSynchronized".into(),
        GgrsError::SpectatorTooFarBehind => "SpectatorTooFarBehind".into(),
        GgrsError::NotEnoughData => "NotEnoughData".into(),
    }
}


fn new_node(idx: usize, addr: Addr, is_spec: bool, host: Option<usize>, locals: Vec<usize>, game: Game, cfg: NodeCfg, spec: Option<SpecCfg>, rng: Rng, first: u64, period: u64) -> Node {
    Node {
        idx,
        addr,
        is_spec,
        host,
        locals,
        game,
        cfg,
        spec,
        rng,
        next_tick: first,
        period,
        tick_no: 0,
        alive: true,
        events: vec![],
        errs: BTreeMap::new(),
        running_at: None,
        reached_target_at: None,
        checked_upto: -1,
        conf_max: -1,
        final_hash: vec![],
        frame_times: vec![],
        fa_log: vec![],
        lfb_log: vec![],
        stats_first_ok: None,
        stats_errs_before_ok: BTreeMap::new(),
        spec_adv_log: vec![],
        action_log: vec![],
        api_hash: 0,
        sizes: SizeMax::default(),
        last_save_frame: -1,
        sync_requests_at_running: None,
        cs_at_first_disconnect: None,
        inputs_already_added: vec![],
        fin: Final::default(),
    }
}

pub fn build<P: Pred>(s: &Scn, oracles: Oracles) -> World<P> {
    vh::clock_set_nanos(T0);
    let mut netv = Net::new(s.seed, s.link.clone());
    for (a, b, l) in &s.link_overrides {
        netv.overrides.insert((*a, *b), l.clone());
    }
    netv.stray_replies = s.stray_replies;
    if s.keep_log {
        netv.log = Some(vec![]);
    }
    let net = Rc::new(RefCell::new(netv));
    let np = s.num_players();
    let frame_ns = 1_000_000_000u64 / s.fps as u64;
    let mut nodes = vec![];
    let mut sessions = vec![];
    for (pi, locals) in s.peers.iter().enumerate() {
        let cfg = s.node_cfg(pi);
        let mut b = SessionBuilder::<Cfg<P>>::new()
            .with_num_players(np)
            .unwrap()
            .with_max_prediction_window(s.mp)
            .with_input_delay(s.delay)
            .with_sparse_saving_mode(s.sparse)
            .with_fps(s.fps)
            .unwrap()
            .with_disconnect_notify_delay(Duration::from_millis(s.notify_ms))
            .with_disconnect_timeout(Duration::from_millis(s.timeout_ms));
        if let Some(i) = s.desync {
            b = b.with_desync_detection_mode(DesyncDetection::On { interval: i });
        }
        for (qi, ls) in s.peers.iter().enumerate() {
            for &h in ls {
                b = b.add_player(if qi == pi { PlayerType::Local } else { PlayerType::Remote(peer_addr(qi)) }, h).unwrap();
            }
        }
        for (si, sp) in s.specs.iter().enumerate() {
            if sp.host == pi {
                b = b.add_player(PlayerType::Spectator(spec_addr(si)), np + si).unwrap();
            }
        }
        let sess = b.start_p2p_session(SimSocket { me: peer_addr(pi), net: net.clone() }).unwrap();
        let mut rng = Rng::new(s.seed ^ 0xABCD ^ ((pi as u64 + 1) << 20));
        let period = (frame_ns as f64 * (1.0 + cfg.skew)) as u64;
        let mut game = Game::new();
        game.keep = s.keep_frames;
        game.save_checksum = !(s.no_checksum && s.desync.is_none()); // checksum-less saving only where detection is off
        game.strict_cells = oracles.c02;
        if let Some((d, f)) = s.diverge {
            if d == pi {
                game.diverge_from = Some(f);
            }
        }
        let first = T0 + rng.below(frame_ns);
        nodes.push(new_node(pi, peer_addr(pi), false, None, locals.clone(), game, cfg, None, rng, first, period));
        sessions.push(Sess::P2P(sess));
    }
    for (si, sp) in s.specs.iter().enumerate() {
        let sess = SessionBuilder::<Cfg<P>>::new()
            .with_num_players(np)
            .unwrap()
            .with_catchup_speed(sp.catchup)
            .unwrap()
            .with_max_frames_behind(sp.max_behind)
            .unwrap()
            .with_max_prediction_window(s.mp)
            .with_fps(s.fps)
            .unwrap()
            .with_disconnect_notify_delay(Duration::from_millis(s.notify_ms))
            .with_disconnect_timeout(Duration::from_millis(s.timeout_ms))
            .start_spectator_session(peer_addr(sp.host), SimSocket { me: spec_addr(si), net: net.clone() });
        let mut rng = Rng::new(s.seed ^ 0x5BEC ^ ((si as u64 + 1) << 24));
        let first = T0 + rng.below(frame_ns);
        let mut game = Game::new();
        game.keep = s.keep_frames;
        game.save_checksum = !(s.no_checksum && s.desync.is_none()); // checksum-less saving only where detection is off
        game.strict_cells = oracles.c02;
        let idx = nodes.len();
        let cfg = NodeCfg { pauses: sp.pauses.clone(), drain: sp.drain, ..Default::default() };
        nodes.push(new_node(idx, spec_addr(si), true, Some(sp.host), vec![], game, cfg, Some(sp.clone()), rng, first, (frame_ns as f64 * sp.period_factor) as u64));
        sessions.push(Sess::Spec(sess));
    }
    World {
        core: Core {
            scn: s.clone(),
            np,
            nodes,
            net,
            truth: Truth::new(np, s.delay),
            oracles,
            obs: Obs::default(),
            viols: vec![],
            actions_done: vec![false; s.actions.len()],
            killed_at: None,
            killed2_at: None,
            end_t: T0,
            hit_limit: false,
            log_fa: false,
            inject_rng: Rng::new(s.seed ^ 0x1717_1717),
            injections: vec![],
            alloc_peak_max: 0,
            alloc_largest_max: 0,
        },
        sess: sessions,
    }
}

impl Core {
    pub fn viol(&mut self, prop: &'static str, node: Addr, t: u64, clause: &str, detail: String) {
        self.viols.push(Viol { prop, clause: clause.to_string(), detail, t_ms: t.saturating_sub(T0) / MS, node, panic: None });
    }
    pub fn panic_viol(&mut self, node: Addr, t: u64, call: &str, p: PanicInfo) {
        self.viols.push(Viol { prop: "PANIC", clause: format!("panic in {call}"), detail: format!("{} at {}", p.msg, p.loc), t_ms: t.saturating_sub(T0) / MS, node, panic: Some(p) });
    }
    pub fn any_event(&self, f: impl Fn(&Ev) -> bool) -> bool {
        self.nodes.iter().any(|n| n.events.iter().any(|(_, e)| f(e)))
    }
    /// frames advanced by node i during [a, b] (virtual ns)
    pub fn frames_between(&self, ni: usize, a: u64, b: u64) -> i32 {
        let ft = &self.nodes[ni].frame_times;
        let at = |x: u64| ft.iter().take_while(|(t, _)| *t <= x).last().map(|p| p.1).unwrap_or(0);
        at(b) - at(a)
    }
    pub fn all_running(&self) -> bool {
        self.nodes.iter().filter(|n| n.alive).all(|n| n.fin.running)
    }
    fn schedule_next(&mut self, ni: usize, t: u64) -> bool {
        // returns false if the node is paused at time t
        let n = &mut self.nodes[ni];
        let polls = n.cfg.polls_per_tick.max(1);
        let sub = n.period / polls;
        let jit = n.rng.below(n.cfg.jitter_ms * MS / polls + 1);
        n.next_tick = t + sub + jit;
        n.tick_no += 1;
        let rel = t.saturating_sub(T0) / MS;
        !n.cfg.pauses.iter().any(|(a, b)| rel >= *a && rel < *b)
    }
}

impl<P: Pred> World<P> {
    fn snapshot(&mut self, ni: usize) {
        let f = &mut self.core.nodes[ni].fin;
        match &self.sess[ni] {
            Sess::P2P(x) => {
                f.current_frame = x.current_frame();
                f.confirmed_frame = x.confirmed_frame();
                f.cs = x.verif_connect_status();
                f.running = x.current_state() == SessionState::Running;
                f.sizes = x.verif_sizes();
                f.undrained_events = f.sizes.event_queue;
                if f.cs.iter().any(|c| c.0) && self.core.nodes[ni].cs_at_first_disconnect.is_none() {
                    let cs = self.core.nodes[ni].fin.cs.clone();
                    self.core.nodes[ni].cs_at_first_disconnect = Some(cs);
                }
            }
            Sess::Spec(x) => {
                f.current_frame = x.current_frame();
                f.running = x.current_state() == SessionState::Running;
                f.frames_behind_host = x.frames_behind_host();
                f.sizes = x.verif_sizes();
                f.undrained_events = f.sizes.event_queue;
            }
        }
    }

    /// `hook(world, node index, time)` is called before every tick (for injections etc.).
    pub fn run_with(&mut self, hook: &mut dyn FnMut(&mut Core, usize, u64)) {
        let s = self.scn.clone();
        let limit = T0 + if s.limit_ms > 0 { s.limit_ms * MS } else { (s.frames as u64) * (1000 / s.fps as u64 + 1) * MS * 4 + 20_000 * MS };
        let mut all_done_at: Option<u64> = None;
        let mut kill_rng = Rng::new(s.seed ^ 0x0DEAD);
        for ni in 0..self.core.nodes.len() {
            self.snapshot(ni);
        }
        loop {
            let Some(ni) = self.core.nodes.iter().filter(|n| n.alive).min_by_key(|n| (n.next_tick, n.addr)).map(|n| n.idx) else { break };
            let t = self.core.nodes[ni].next_tick;
            if t > limit {
                self.core.hit_limit = true;
                self.core.end_t = limit;
                break;
            }
            if let Some(k) = &s.kill {
                if self.core.killed_at.is_none() && t >= T0 + k.at_ms * MS {
                    self.core.nodes[k.node].alive = false;
                    let a = self.core.nodes[k.node].addr;
                    self.core.net.borrow_mut().kill(a, k.pdrop, &mut kill_rng);
                    self.core.killed_at = Some(t);
                    continue;
                }
            }
            if let Some(k) = &s.kill2 {
                if self.core.killed2_at.is_none() && t >= T0 + k.at_ms * MS {
                    self.core.nodes[k.node].alive = false;
                    let a = self.core.nodes[k.node].addr;
                    self.core.net.borrow_mut().kill(a, k.pdrop, &mut kill_rng);
                    self.core.killed2_at = Some(t);
                    continue;
                }
            }
            vh::clock_set_nanos(t);
            self.core.end_t = t;
            hook(&mut self.core, ni, t);
            vh::clock_set_nanos(t);
            if self.core.nodes[ni].is_spec {
                self.tick_spec(ni, t);
            } else {
                self.tick_p2p(ni, t);
            }
            self.snapshot(ni);
            if !self.core.viols.is_empty() {
                break;
            }
            // spectators take part in the run: the settle time only starts once they are synchronised
            if all_done_at.is_none() && self.core.nodes.iter().filter(|n| n.alive).all(|n| if n.is_spec { n.running_at.is_some() } else { n.reached_target_at.is_some() }) {
                all_done_at = Some(t);
            }
            if let Some(d) = all_done_at {
                if t >= d + s.settle_ms * MS {
                    break;
                }
            }
        }
    }

    fn tick_p2p(&mut self, ni: usize, t: u64) {
        if !self.core.schedule_next(ni, t) {
            return;
        }
        let s_frames = self.core.scn.frames;
        let rel_ms = t.saturating_sub(T0) / MS;
        // scripted actions
        for ai in 0..self.core.scn.actions.len() {
            if self.core.actions_done[ai] || self.core.scn.actions[ai].node != ni {
                continue;
            }
            let due = match self.core.scn.actions[ai].when {
                Trigger::AtMs(ms) => rel_ms >= ms,
                Trigger::AtFrame(f) => self.core.nodes[ni].game.frame() >= f,
            };
            if due {
                self.core.actions_done[ai] = true;
                let act = self.core.scn.actions[ai].act.clone();
                self.do_action(ni, t, ai, &act);
                if !self.core.viols.is_empty() {
                    return;
                }
            }
        }
        let all_running = self.core.all_running();
        let core = &mut self.core;
        let polls = core.nodes[ni].cfg.polls_per_tick.max(1);
        let full_tick = core.nodes[ni].tick_no % polls == 0;
        let start_ok = match core.scn.start {
            Start::Own => true,
            Start::AllRunning => all_running,
            Start::AtMs(ms) => rel_ms >= ms,
        };
        let addr = core.nodes[ni].addr;
        let Sess::P2P(sess) = &mut self.sess[ni] else { unreachable!() };
        let running = sess.current_state() == SessionState::Running;
        if running && core.nodes[ni].running_at.is_none() {
            core.nodes[ni].running_at = Some(t);
        }
        let poll_only_now = core.nodes[ni].cfg.poll_only.iter().any(|(a, b)| rel_ms >= *a && rel_ms < *b);
        let want_advance = full_tick && !poll_only_now && start_ok && core.nodes[ni].game.frame() < s_frames && (running || matches!(core.scn.start, Start::AtMs(_)));
        if want_advance {
            let cf = sess.current_frame();
            let mut vals = vec![];
            let already = std::mem::take(&mut core.nodes[ni].inputs_already_added);
            for &h in &core.nodes[ni].locals.clone() {
                let v = input_value(core.scn.seed, h, cf, core.scn.sticky);
                if already.contains(&h) {
                    vals.push((h, v));
                    continue;
                }
                if let Err(e) = sess.add_local_input(h, v) {
                    let d = format!("add_local_input({h}) for a local player failed: {e:?}");
                    core.viol("C16", addr, t, "valid call rejected", d);
                    return;
                }
                vals.push((h, v));
            }
            let pre = core.nodes[ni].game.frame();
            let wait = core.nodes[ni].cfg.wait;
            let wait_ms = core.nodes[ni].cfg.wait_ms;
            if wait > 0 {
                core.net.borrow_mut().spin_ns = 500_000;
            }
            if std::env::var("VERIF_TRACE_NODE").is_ok() {
                eprintln!("BEGIN node {ni} t={}ms", (t - T0) / MS);
            }
            let (res, ast) = crate::alloc::region(true, || {
                guarded(|| match wait {
                    0 => sess.advance_frame(),
                    1 => sess.advance_frame_with_wait(),
                    _ => sess.advance_frame_with_wait_timeout(Duration::from_millis(wait_ms)),
                })
            });
            core.alloc_peak_max = core.alloc_peak_max.max(ast.peak_live);
            core.alloc_largest_max = core.alloc_largest_max.max(ast.largest);
            if wait > 0 {
                core.net.borrow_mut().spin_ns = 0;
                let now = vh::clock_now_nanos();
                let n = &mut core.nodes[ni];
                n.next_tick = n.next_tick.max(now + 1);
            }
            if core.oracles.c12_notsync {
                if let Ok(r) = &res {
                    let running_after = sess.current_state() == SessionState::Running;
                    let notsync = matches!(r, Err(GgrsError::NotSynchronized));
                    core.obs.notsync_checks += 1;
                    if running_after == notsync {
                        let d = format!("advance_frame returned {} while current_state() is {}", if notsync { "NotSynchronized".to_string() } else { format!("{:?}", r.as_ref().map(|l| l.len()).map_err(err_name)) }, if running_after { "Running" } else { "Synchronizing" });
                        core.viol("C12", addr, t, "NotSynchronized does not coincide with the session state", d);
                        return;
                    }
                }
            }
            match res {
                Err(p) => {
                    core.panic_viol(addr, t, "advance_frame", p);
                    return;
                }
                Ok(Err(e)) => {
                    core.obs.calls_err += 1;
                    let n = &mut core.nodes[ni];
                    n.api_hash = mix(n.api_hash, 0xE000 + err_name(&e).len() as u64);
                    *n.errs.entry(err_name(&e)).or_default() += 1;
                }
                Ok(Ok(reqs)) => {
                    core.obs.calls_ok += 1;
                    for (h, v) in &vals {
                        core.truth.players[*h].submit(cf, *v);
                    }
                    let rollback_mode = core.scn.mp > 0;
                    let n = &mut core.nodes[ni];
                    n.api_hash = mix(n.api_hash, 0x0C);
                    let handled = n.game.handle(reqs, rollback_mode);
                    if std::env::var("VERIF_TRACE_NODE").ok().and_then(|x| x.parse::<usize>().ok()) == Some(ni) {
                        eprintln!("TRACE t={}ms node {} cur={} conf={} cs={:?} list [{}]", (t - T0) / MS, ni, sess.current_frame(), sess.confirmed_frame(), sess.verif_connect_status(), n.game.last_call_str());
                    }
                    for r in &n.game.last_call {
                        if let Req::Save(f) = r {
                            n.last_save_frame = *f;
                        }
                    }
                    if let Err(e) = handled {
                        if core.oracles.c02 {
                            let d = format!("{e}; list so far: [{}]", core.nodes[ni].game.last_call_str());
                            core.viol("C02", addr, t, "request list not executable", d);
                        } else {
                            core.viol("HARNESS", addr, t, "request list not executable", e);
                        }
                        return;
                    }
                    let snap = (sess.current_frame(), sess.confirmed_frame(), sess.verif_connect_status(), sess.frames_ahead());
                    if core.log_fa {
                        let rh = sess.remote_player_handles().into_iter().min();
                        let st = rh.and_then(|h| sess.network_stats(h).ok());
                        core.nodes[ni].fa_log.push(FaRec { t, frame: snap.0, fa: snap.3, ping: st.map(|s| s.ping as i64).unwrap_or(-1), rfb: st.map(|s| s.remote_frames_behind).unwrap_or(0) });
                    }
                    core.after_p2p_call::<P>(ni, t, pre, snap);
                    if !core.viols.is_empty() {
                        return;
                    }
                }
            }
        } else {
            let (res, ast) = crate::alloc::region(true, || guarded(|| sess.poll_remote_clients()));
            core.alloc_peak_max = core.alloc_peak_max.max(ast.peak_live);
            core.alloc_largest_max = core.alloc_largest_max.max(ast.largest);
            if let Err(p) = res {
                core.panic_viol(addr, t, "poll_remote_clients", p);
                return;
            }
        }
        // after any tick
        let target = core.scn.frames;
        let n = &mut core.nodes[ni];
        let gf = n.game.frame();
        if n.frame_times.last().map(|x| x.1) != Some(gf) {
            n.frame_times.push((t, gf));
        }
        if gf >= target && n.reached_target_at.is_none() && sess.confirmed_frame() >= target - 1 {
            n.reached_target_at = Some(t);
        }
        if core.log_fa {
            if let Some(h) = sess.remote_player_handles().into_iter().min() {
                match sess.network_stats(h) {
                    Ok(st) => {
                        if n.stats_first_ok.is_none() {
                            n.stats_first_ok = Some(t);
                        }
                        n.lfb_log.push((t, st.local_frames_behind));
                    }
                    Err(e) => {
                        if n.stats_first_ok.is_none() {
                            *n.stats_errs_before_ok.entry(err_name(&e)).or_default() += 1;
                        }
                    }
                }
            }
        }
        let sz = sess.verif_sizes();
        n.sizes.absorb(&sz);
        core.obs.size_samples += 1;
        let running = sess.current_state() == SessionState::Running;
        if running && n.running_at.is_none() {
            n.running_at = Some(t);
        }
        if running && n.sync_requests_at_running.is_none() {
            n.sync_requests_at_running = Some(sz.remotes.iter().chain(sz.spectators.iter()).map(|e| e.sync_random_requests).max().unwrap_or(0));
        }
        if n.cfg.drain {
            for e in sess.events() {
                n.events.push((t, Ev::from::<P>(e)));
            }
        }
        if core.oracles.c12_running {
            core.obs.running_checks += 1;
            let mut addrs: Vec<Addr> = vec![];
            for qi in 0..core.scn.peers.len() {
                if qi != ni {
                    addrs.push(peer_addr(qi));
                }
            }
            for (si, sp) in core.scn.specs.iter().enumerate() {
                if sp.host == ni {
                    addrs.push(spec_addr(si));
                }
            }
            let counts: Vec<u32> = {
                let net = core.net.borrow();
                addrs.iter().map(|a| net.matched_roundtrips(addr, *a)).collect()
            };
            // required = the total the library's own Synchronizing events announce; before any such event was seen in this
            // process a session can only be judged for being Running without a single completed round trip
            let need = sync_total();
            let all = if need == 0 { running && counts.iter().all(|c| *c >= 1) } else { counts.iter().all(|c| *c >= need) };
            if running != all {
                let d = format!("current_state() Running = {running}, matched round trips per remote {addrs:?} = {counts:?} ({need} announced as total)");
                core.viol("C12", addr, t, "Running does not coincide with completed handshakes", d);
            }
        }
    }

    fn tick_spec(&mut self, ni: usize, t: u64) {
        if !self.core.schedule_next(ni, t) {
            return;
        }
        let core = &mut self.core;
        let o = core.oracles;
        let np = core.np;
        let addr = core.nodes[ni].addr;
        let start_ok = match core.scn.start {
            Start::Own => true,
            Start::AllRunning => core.all_running(),
            Start::AtMs(ms) => t.saturating_sub(T0) / MS >= ms,
        };
        let host = core.nodes[ni].host.unwrap();
        let (host_conf, host_any_disc) = {
            let f = &core.nodes[host].fin;
            (f.confirmed_frame, f.cs.iter().any(|c| c.0))
        };
        let host_alive = core.nodes[host].alive;
        let Sess::Spec(sess) = &mut self.sess[ni] else { unreachable!() };
        if sess.current_state() == SessionState::Running && core.nodes[ni].running_at.is_none() {
            core.nodes[ni].running_at = Some(t);
        }
        if !start_ok {
            if let Err(p) = guarded(|| sess.poll_remote_clients()) {
                core.panic_viol(addr, t, "SpectatorSession::poll_remote_clients", p);
            }
            return;
        }
        let (sres, ast) = crate::alloc::region(true, || guarded(|| sess.advance_frame()));
        core.alloc_peak_max = core.alloc_peak_max.max(ast.peak_live);
        core.alloc_largest_max = core.alloc_largest_max.max(ast.largest);
        match sres {
            Err(p) => {
                core.panic_viol(addr, t, "SpectatorSession::advance_frame", p);
                return;
            }
            Ok(Err(e)) => {
                core.obs.calls_err += 1;
                match e {
                    GgrsError::PredictionThreshold => core.obs.spec_waits += 1,
                    GgrsError::SpectatorTooFarBehind => core.obs.spec_too_far_behind += 1,
                    _ => {}
                }
                let n = &mut core.nodes[ni];
                n.api_hash = mix(n.api_hash, 0xE000 + err_name(&e).len() as u64);
                *n.errs.entry(err_name(&e)).or_default() += 1;
            }
            Ok(Ok(reqs)) => {
                core.obs.calls_ok += 1;
                let n = &mut core.nodes[ni];
                n.api_hash = mix(n.api_hash, 0x0C);
                let k = reqs.len();
                let only_adv = reqs.iter().all(|r| matches!(r, GgrsRequest::AdvanceFrame { .. }));
                let handled = n.game.handle(reqs, false);
                let cur = sess.current_frame();
                let behind_after = sess.frames_behind_host();
                n.spec_adv_log.push((k, behind_after));
                if k > 1 {
                    core.obs.spec_catchup_calls += 1;
                }
                let gframe = core.nodes[ni].game.frame();
                if o.c02 {
                    if let Err(e) = handled {
                        core.viol("C02", addr, t, "spectator request list not executable", e);
                        return;
                    }
                    if !only_adv {
                        core.viol("C02", addr, t, "spectator list contains save/load requests", String::new());
                        return;
                    }
                    if gframe - 1 != cur {
                        core.viol("C02", addr, t, "spectator game frame != current_frame()+1", format!("game {gframe}, current_frame() {cur}"));
                        return;
                    }
                }
                if o.c06 {
                    let sp = core.nodes[ni].spec.clone().unwrap();
                    let fb = behind_after + k;
                    if k > 1 && !(fb > sp.max_behind && k <= sp.catchup) {
                        let d = format!("advanced {k} frames in one call with {fb} frames buffered (catchup_speed {}, max_frames_behind {})", sp.catchup, sp.max_behind);
                        core.viol("C06", addr, t, "catch-up discipline violated", d);
                        return;
                    }
                    if host_alive && cur > host_conf {
                        let d = format!("spectator advanced frame {cur} but the host has only confirmed {host_conf}");
                        core.viol("C06", addr, t, "spectator ahead of the host's confirmed frame", d);
                        return;
                    }
                    let sims: Vec<i32> = core.nodes[ni].game.simulated_in_last_call().collect();
                    for f in sims {
                        let row = core.nodes[ni].game.row(f).unwrap().clone();
                        core.obs.spec_frames_checked += 1;
                        for h in 0..np {
                            if row[h].1 == InputStatus::Predicted {
                                core.viol("C06", addr, t, "spectator got a Predicted input", format!("frame {f} player {h}"));
                                return;
                            }
                            if !host_any_disc {
                                let tr = core.truth.get(h, f);
                                if Some(row[h].0) != tr || row[h].1 != InputStatus::Confirmed {
                                    let d = format!("spectator frame {f} player {h}: got {:?}, the host's confirmed timeline has {tr:?}", row[h]);
                                    core.viol("C06", addr, t, "spectator input differs from the host's confirmed input", d);
                                    return;
                                }
                            }
                        }
                    }
                }
            }
        }
        let n = &mut core.nodes[ni];
        let gf = n.game.frame();
        if n.frame_times.last().map(|x| x.1) != Some(gf) {
            n.frame_times.push((t, gf));
        }
        let sz = sess.verif_sizes();
        n.sizes.absorb(&sz);
        if n.cfg.drain {
            for e in sess.events() {
                n.events.push((t, Ev::from::<P>(e)));
            }
        }
    }

    fn do_action(&mut self, ni: usize, t: u64, ai: usize, act: &Act) {
        let core = &mut self.core;
        let addr = core.nodes[ni].addr;
        let Sess::P2P(sess) = &mut self.sess[ni] else { return };
        core.obs.actions_done += 1;
        let unit = |r: Result<(), GgrsError>| match r {
            Ok(()) => "Ok".to_string(),
            Err(e) => err_name(&e),
        };
        let res: Result<String, PanicInfo> = match act {
            Act::SetDelay { h, d } => guarded(|| sess.set_input_delay(*h, *d)).map(unit),
            Act::Disconnect { h } => guarded(|| sess.disconnect_player(*h)).map(unit),
            Act::BarePoll => guarded(|| sess.poll_remote_clients()).map(|_| "Ok".to_string()),
            Act::Misuse(m) => match m {
                Misuse::InputForHandle(h) => guarded(|| sess.add_local_input(*h, Inp(0x0BAD_F00D))).map(unit),
                Misuse::AdvanceMissingInput => {
                    let pending = sess.verif_sizes().pending_local_inputs;
                    let running = sess.current_state() == SessionState::Running;
                    let _ = running;
                    let r = guarded(|| sess.advance_frame());
                    // the call polls first: what counts is the state it found after polling
                    let running = sess.current_state() == SessionState::Running;
                    let rollback_mode = core.scn.mp > 0;
                    let game = &mut core.nodes[ni].game;
                    r.map(|r| match r {
                        Ok(l) => {
                            // inputs of a stalled tick were still pending: this was a legitimate call and
                            // its requests have to be executed like any others
                            let n = l.len();
                            let h = game.handle(l, rollback_mode);
                            format!("Ok[{n}]{}(pending={pending},running={running})", if h.is_err() { "!contract" } else { "" })
                        }
                        Err(e) => format!("{}(pending={pending},running={running})", err_name(&e)),
                    })
                }
                Misuse::AdvancePartialInputs => {
                    let locals = core.nodes[ni].locals.clone();
                    let running = sess.current_state() == SessionState::Running;
                    let pending = sess.verif_sizes().pending_local_inputs;
                    if locals.len() < 2 || !running || pending > 0 {
                        Ok("skipped".to_string())
                    } else {
                        let cf = sess.current_frame();
                        let seed = core.scn.seed;
                        let sticky = core.scn.sticky;
                        let r = guarded(|| {
                            for &h in &locals[..locals.len() - 1] {
                                sess.add_local_input(h, input_value(seed, h, cf, sticky)).expect("valid local input rejected");
                            }
                            sess.advance_frame()
                        });
                        core.nodes[ni].inputs_already_added = locals[..locals.len() - 1].to_vec();
                        r.map(|r| match r {
                            Ok(l) => format!("Ok[{}]", l.len()),
                            Err(e) => err_name(&e),
                        })
                    }
                }
                Misuse::DisconnectHandle(h) => guarded(|| sess.disconnect_player(*h)).map(unit),
                Misuse::SetDelayHandle(h, d) => guarded(|| sess.set_input_delay(*h, *d)).map(unit),
                Misuse::StatsHandle(h) => guarded(|| sess.network_stats(*h)).map(|r| match r {
                    Ok(_) => "Ok".to_string(),
                    Err(e) => err_name(&e),
                }),
            },
        };
        match res {
            Err(p) => core.panic_viol(addr, t, &format!("{act:?}"), p),
            Ok(r) => {
                if let (Act::SetDelay { h, d }, "Ok") = (act, r.as_str()) {
                    core.truth.players[*h].set_delay(*d);
                }
                let n = &mut core.nodes[ni];
                n.api_hash = mix(n.api_hash, r.len() as u64 + 0xAC00);
                n.action_log.push((ai, r));
            }
        }
    }

    /// Drains whatever is left in the event queues (used for sessions whose user never drains).
    pub fn final_drain(&mut self) {
        let t = self.core.end_t;
        for (n, s) in self.core.nodes.iter_mut().zip(self.sess.iter_mut()) {
            match s {
                Sess::P2P(x) => {
                    for e in x.events() {
                        n.events.push((t, Ev::from::<P>(e)));
                    }
                }
                Sess::Spec(x) => {
                    for e in x.events() {
                        n.events.push((t, Ev::from::<P>(e)));
                    }
                }
            }
        }
    }
}

pub fn row_hash(r: &Row) -> u64 {
    let mut h = 0x1234_5678u64;
    for (v, s) in r {
        h = mix(h, ((v.0 as u64) << 1) | (*s == InputStatus::Disconnected) as u64);
    }
    h | 1
}

/// Builds and runs a scenario with the predictor it asks for and returns the analysable part.
pub fn run_scn(s: &Scn, o: Oracles) -> Core {
    run_scn_opts(s, o, false)
}
pub fn run_scn_opts(s: &Scn, o: Oracles, log_fa: bool) -> Core {
    run_scn_hook(s, o, log_fa, &mut |_, _, _| {})
}
/// `hook(core, node index, time)` runs before every tick (packet injection etc.).
pub fn run_scn_hook(s: &Scn, o: Oracles, log_fa: bool, hook: &mut dyn FnMut(&mut Core, usize, u64)) -> Core {
    fn go<P: Pred>(s: &Scn, o: Oracles, log_fa: bool, hook: &mut dyn FnMut(&mut Core, usize, u64)) -> Core {
        let mut w = build::<P>(s, o);
        w.core.log_fa = log_fa;
        w.run_with(hook);
        w.final_drain();
        w.core
    }
    if s.pred == 0 {
        go::<PredictRepeatLast>(s, o, log_fa, hook)
    } else {
        go::<PredictDefault>(s, o, log_fa, hook)
    }
}

impl Core {
    /// Oracles that look at an Ok advance_frame call of a P2P session.
    fn after_p2p_call<P: Pred>(&mut self, ni: usize, t: u64, pre: i32, snap: (i32, i32, Vec<(bool, i32)>, i32)) {
        let (cur, conf, cs, fa) = snap;
        let mp = self.scn.mp as i32;
        let np = self.np;
        let o = self.oracles;
        let sparse = self.scn.sparse && mp > 0;
        let addr = self.nodes[ni].addr;
        let gframe = self.nodes[ni].game.frame();
        let _ = fa;
        let new_frame = gframe == pre + 1;
        if new_frame {
            self.obs.new_frames += 1;
        } else {
            self.obs.stalls += 1;
        }
        // ---- C02: frame bookkeeping after the last request
        if o.c02 {
            if gframe != cur {
                let d = format!("game at {gframe}, current_frame() = {cur}, list [{}]", self.nodes[ni].game.last_call_str());
                self.viol("C02", addr, t, "game frame != current_frame() after the list", d);
                return;
            }
            if gframe != pre && gframe != pre + 1 {
                self.viol("C02", addr, t, "frame delta not in {0,+1}", format!("before {pre}, after {gframe}"));
                return;
            }
        }
        // ---- C02: anything that can still be rolled back to has been saved
        if o.c02_saved && mp > 0 {
            self.obs.saved_invariant_checks += 1;
            if !sparse {
                for g in (conf + 1).max(0)..cur {
                    self.obs.cells_inspected += 1;
                    let n = &self.nodes[ni];
                    let have = n.game.cells.get(&g).and_then(|c| c.load());
                    let ok = have.is_some_and(|st| st.frame == g && Some(st) == n.game.state(g));
                    if !ok {
                        let d = format!("frame {g} (confirmed {conf} < {g} < current {cur}) has no retained save holding the state of the current timeline: cell holds {have:?}, timeline state {:?}", n.game.state(g));
                        self.viol("C02", addr, t, "frame that can still be rolled back to is not saved", d);
                        return;
                    }
                }
            } else if cur > 0 {
                let n = &self.nodes[ni];
                let sfr = n.last_save_frame;
                self.obs.cells_inspected += 1;
                let ok = sfr >= 0 && n.game.cells.get(&sfr).and_then(|c| c.load()).is_some_and(|st| st.frame == sfr && Some(st) == n.game.state(sfr));
                if !ok || sfr > conf + 1 || sfr < cur - mp {
                    let d = format!("sparse saving: last saved frame {sfr}, confirmed {conf}, current {cur}, window {mp}, cell ok = {ok}");
                    self.viol("C02", addr, t, "sparse saving lost the state it has to roll back to", d);
                    return;
                }
            }
        }
        // ---- C04: speculation bounded by the window; lockstep never speculates
        if o.c04 {
            if new_frame {
                let dist = pre - conf;
                self.obs.c04_dist[(dist.max(0) as usize).min(19)] += 1;
                if dist == mp {
                    self.obs.c04_at_limit += 1;
                }
                if dist > mp {
                    let d = format!("simulated new frame {pre} while the newest frame with all inputs is {conf} (window {mp})");
                    self.viol("C04", addr, t, "new frame simulated beyond the prediction window", d);
                    return;
                }
                // the same bound against the harness's OWN record of what was handed to this session: the newest input
                // frame delivered from every remote address whose players are still connected (a session cannot know
                // more than was delivered to it, so this never under-estimates what it knows)
                let known: Option<i32> = {
                    let net = self.net.borrow();
                    self.scn
                        .peers
                        .iter()
                        .enumerate()
                        .filter(|(pi, hs)| peer_addr(*pi) != addr && hs.iter().any(|h| !cs[*h].0))
                        .map(|(pi, _)| net.max_input_frame_delivered.get(&(peer_addr(pi), addr)).copied().unwrap_or(-1))
                        .min()
                };
                if let Some(k) = known {
                    self.obs.c04_indep_checks += 1;
                    if pre - k > mp {
                        let d = format!("simulated new frame {pre} while the newest frame delivered from every connected remote is {k} (window {mp}; confirmed_frame() = {conf})");
                        self.viol("C04", addr, t, "new frame simulated beyond the prediction window", d);
                        return;
                    }
                }
            }
            let mut f = pre;
            let mut bad: Option<String> = None;
            for r in &self.nodes[ni].game.last_call {
                match r {
                    Req::Load(to) => {
                        if f - to > mp {
                            bad = Some(format!("LoadGameState({to}) while the game is at frame {f} (window {mp})"));
                            break;
                        }
                        f = *to;
                    }
                    Req::Adv(_) => f += 1,
                    Req::Save(_) => {}
                }
            }
            if let Some(d) = bad {
                self.viol("C04", addr, t, "load deeper than the prediction window", d);
                return;
            }
            if mp == 0 {
                let lc = self.nodes[ni].game.last_call.clone();
                let lcs = self.nodes[ni].game.last_call_str();
                if lc.iter().any(|r| matches!(r, Req::Save(_) | Req::Load(_))) {
                    self.viol("C04", addr, t, "lockstep issued SaveGameState/LoadGameState", format!("list [{lcs}]"));
                    return;
                }
                if lc.len() > 1 {
                    self.viol("C04", addr, t, "lockstep advanced more than one frame in a call", format!("list [{lcs}]"));
                    return;
                }
                if lc.is_empty() {
                    self.obs.lockstep_stalls += 1;
                    if cur != pre {
                        self.viol("C04", addr, t, "stalled lockstep call changed current_frame()", format!("{pre} -> {cur}"));
                        return;
                    }
                } else {
                    self.obs.lockstep_advances += 1;
                }
                for r in &lc {
                    let Req::Adv(f) = r else { continue };
                    let row = self.nodes[ni].game.row(*f).unwrap().clone();
                    for (h, (v, st)) in row.iter().enumerate() {
                        if *st == InputStatus::Predicted {
                            self.viol("C04", addr, t, "lockstep handed out a Predicted input", format!("frame {f} player {h}"));
                            return;
                        }
                        if *st == InputStatus::Confirmed && Some(*v) != self.truth.get(h, *f) {
                            let d = format!("frame {f} player {h}: {:?} but the player submitted {:?}", v, self.truth.get(h, *f));
                            self.viol("C04", addr, t, "lockstep advanced with an input that is not the real one", d);
                            return;
                        }
                    }
                }
            }
        }
        // ---- C03: status truthfulness for every simulated frame of this call
        if o.c03 {
            let sims: Vec<i32> = self.nodes[ni].game.simulated_in_last_call().collect();
            for f in sims {
                let row = self.nodes[ni].game.row(f).unwrap().clone();
                for h in 0..np {
                    let (v, st) = row[h];
                    let (disc, l) = cs[h];
                    let is_local = self.nodes[ni].locals.contains(&h);
                    let tr = self.truth.get(h, f);
                    let bad: Option<String> = match st {
                        InputStatus::Confirmed => {
                            self.obs.status_confirmed += 1;
                            if !is_local && l < f {
                                Some(format!("Confirmed although the newest frame received from that player is {l}"))
                            } else if Some(v) != tr {
                                Some(format!("Confirmed value {v:?} but the player really submitted {tr:?}"))
                            } else {
                                None
                            }
                        }
                        InputStatus::Predicted => {
                            self.obs.status_predicted += 1;
                            if l >= f {
                                self.obs.predicted_though_received += 1;
                            }
                            if Some(v) == tr {
                                self.obs.predicted_right += 1;
                            } else {
                                self.obs.predicted_wrong += 1;
                            }
                            let want = if l < 0 { Some(Inp::default()) } else { self.truth.get(h, l).map(P::predict) };
                            if is_local {
                                Some("a local player's input was handed out as Predicted".to_string())
                            } else if Some(v) != want {
                                Some(format!("Predicted {v:?} but {}(newest received input, frame {l}) = {want:?}", P::NAME))
                            } else {
                                None
                            }
                        }
                        InputStatus::Disconnected => {
                            self.obs.status_disconnected += 1;
                            if is_local {
                                Some("a local player's input was handed out as Disconnected".to_string())
                            } else if v != Inp::default() || !disc || l >= f {
                                Some(format!("Disconnected status with value {v:?}, disconnected flag {disc}, last received frame {l}"))
                            } else {
                                None
                            }
                        }
                    };
                    if let Some(b) = bad {
                        self.viol("C03", addr, t, "input status not truthful", format!("frame {f} player {h}: {b}"));
                        return;
                    }
                }
                // finality of frames at or below a confirmed frame observed after an earlier call
                let n = &self.nodes[ni];
                if f <= n.conf_max && (f as usize) < n.final_hash.len() && n.final_hash[f as usize] != 0 {
                    self.obs.final_rechecks += 1;
                    if row_hash(&row) != n.final_hash[f as usize] {
                        let d = format!("frame {f} was at or below confirmed_frame() = {} and is re-simulated with different inputs {:?}", n.conf_max, row);
                        self.viol("C03", addr, t, "confirmed inputs changed", d);
                        return;
                    }
                }
            }
        }
        // confirmed_frame() monotone + record final rows
        {
            let cm = self.nodes[ni].conf_max;
            if o.c03 && conf < cm {
                self.viol("C03", addr, t, "confirmed_frame() decreased", format!("confirmed_frame() went from {cm} to {conf}"));
                return;
            }
            let n = &mut self.nodes[ni];
            if conf > n.conf_max {
                if o.c03 {
                    let upto = conf.min(cur - 1);
                    if upto >= 0 {
                        if n.final_hash.len() <= upto as usize {
                            n.final_hash.resize(upto as usize + 1, 0);
                        }
                        for f in (n.conf_max + 1).max(0)..=upto {
                            if let Some(r) = n.game.row(f) {
                                n.final_hash[f as usize] = row_hash(r);
                            }
                        }
                    }
                }
                n.conf_max = conf;
            }
        }
        // ---- C01: confirmed timeline equals the serial replay of the true inputs
        if o.c01 {
            let lim = conf.min(cur - 1);
            let before = self.nodes[ni].checked_upto;
            let mut frames: Vec<(i32, bool)> = self.nodes[ni].game.simulated_in_last_call().filter(|f| *f <= before).map(|f| (f, true)).collect();
            for f in before + 1..=lim {
                frames.push((f, false));
            }
            for (f, resim) in frames {
                let Some(row) = self.nodes[ni].game.row(f).cloned() else {
                    let d = format!("frame {f} <= confirmed {conf} < current {cur} was never simulated");
                    self.viol("C01", addr, t, "confirmed frame missing from the timeline", d);
                    return;
                };
                if resim {
                    self.obs.resim_checked_c01 += 1;
                } else {
                    self.obs.frames_checked_c01 += 1;
                }
                for h in 0..np {
                    if cs[h].0 {
                        continue; // disconnected players are C07's business
                    }
                    let tr = self.truth.get(h, f);
                    if Some(row[h].0) != tr || row[h].1 == InputStatus::Disconnected {
                        let d = format!("frame {f} (confirmed {conf}) player {h}: last simulation used {:?} but the player submitted {tr:?}", row[h]);
                        self.viol("C01", addr, t, "confirmed frame simulated with a wrong input", d);
                        return;
                    }
                }
                if !cs.iter().any(|c| c.0) {
                    let want = self.truth.serial(f + 1);
                    let got = self.nodes[ni].game.state(f + 1);
                    self.obs.states_checked_c01 += 1;
                    if want.is_none() || got != want {
                        let d = format!("state at frame {} is {got:?}, serial replay of the true inputs gives {want:?}", f + 1);
                        self.viol("C01", addr, t, "state differs from the serial replay", d);
                        return;
                    }
                }
            }
            self.nodes[ni].checked_upto = before.max(lim);
        }
    }
}
