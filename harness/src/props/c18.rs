//! C18 — internal buffers stay bounded over arbitrarily long sessions.
use crate::alloc;
use crate::base::*;
use crate::fw::*;
use crate::gen::*;
use crate::net::*;
use crate::scn::*;
use crate::world::*;
use serde_json::Map;
use std::time::Instant;

pub fn cases(ctx: &Ctx) -> Vec<WCase> {
    let mut out = vec![];
    let mut r = Rng::new(ctx.seed ^ 0xC18);
    // never-drained sessions (players AND spectators) on a flapping link: hundreds of NetworkInterrupted / NetworkResumed
    // events are raised and nobody fetches them
    for i in 0..ctx.n(16, 300) {
        let mut rr = r.fork(0x7000_0000 + i as u64);
        let mut s = Scn::base(rr.next());
        s.peers = rr.pick(&[vec![vec![0], vec![1]], vec![vec![0, 1]], vec![vec![0], vec![1], vec![2]]]);
        s.mp = rr.pick(&[2usize, 8]);
        s.frames = 3000;
        s.desync = Some(rr.pick(&[1u32, 2]));
        s.notify_ms = 100;
        s.timeout_ms = 120_000;
        s.keep_frames = Some(600);
        let mut outs = vec![];
        let mut t = 1200;
        while t < 80_000 {
            outs.push(Outage { from_ms: t, to_ms: t + 150, kinds: 0 });
            t += 400;
        }
        s.link = Link { drop: 0.0, dup: 0.0, base_ms: 5, jitter_ms: 0, outages: outs, faults: vec![], stragglers: vec![] };
        for _ in 0..s.peers.len() {
            s.nodes.push(NodeCfg { drain: false, ..Default::default() });
        }
        let mut sp = SpecCfg::new(0);
        sp.drain = false;
        s.specs.push(sp);
        // half of them: a second spectator that falls silent for good, so that the host itself drops an endpoint (a
        // Disconnected event enters the never-drained queue) and hundreds of further events follow
        if i % 2 == 1 {
            let mut sp2 = SpecCfg::new(0);
            sp2.drain = false;
            sp2.pauses.push((rr.range(2500, 4000), 100_000_000));
            s.specs.push(sp2);
        }
        s.limit_ms = 3000 * 17 * 3 + 20_000;
        out.push(wcase(format!("flap-{i}"), s));
    }
    let n = ctx.n(160, 3000);
    for i in 0..n {
        let mut rr = r.fork(i as u64);
        let mut s = Scn::base(rr.next());
        let fam = i % 8;
        s.peers = match fam {
            0 => vec![vec![0]],
            1 => vec![vec![0, 1]],
            2 | 3 => vec![vec![0], vec![1]],
            4 => vec![vec![0, 1], vec![2]],
            5 => vec![vec![0], vec![1], vec![2]],
            6 => vec![vec![0, 2], vec![1, 3]],
            _ => vec![vec![0], vec![1], vec![2], vec![3]],
        };
        s.pred = rr.below(2) as u8;
        s.mp = rr.pick(&[0usize, 2, 8]);
        s.delay = rr.pick(&[0usize, 2]);
        s.sparse = rr.chance(0.4);
        s.desync = Some(rr.pick(&[1u32, 2]));
        s.frames = if ctx.quick() { 3000 } else if i % 15 == 0 { 20_000 } else { 5000 };
        s.sticky = rr.pick(&[1u32, 3]);
        s.notify_ms = 300_000;
        s.timeout_ms = 600_000;
        s.keep_frames = Some(600);
        if rr.chance(0.5) {
            s.link = Link { drop: 0.1, dup: 0.05, base_ms: 20, jitter_ms: 20, outages: vec![], faults: vec![], stragglers: vec![] };
        }
        let drain = rr.chance(0.5);
        for _ in 0..s.peers.len() {
            s.nodes.push(NodeCfg { drain, ..Default::default() });
        }
        // spectators: attentive, on a lossy link, or falling silent at a random time
        let spec_kind = rr.below(4);
        if spec_kind > 0 {
            let mut sp = SpecCfg::new(rr.below(s.peers.len() as u64) as usize);
            sp.drain = drain;
            if spec_kind == 2 {
                let a = rr.range(3000, 20_000);
                sp.pauses.push((a, 100_000_000));
            }
            if spec_kind == 3 {
                let l = Link { drop: 0.15, dup: 0.1, base_ms: 30, jitter_ms: 30, outages: vec![], faults: vec![], stragglers: vec![] };
                s.link_overrides.push((peer_addr(sp.host), spec_addr(0), l.clone()));
                s.link_overrides.push((spec_addr(0), peer_addr(sp.host), l));
            }
            s.specs.push(sp);
        }
        // a quarter of the two-peer cases lose their remote early (death or explicit disconnect) and
        // the survivor plays on alone for thousands of frames
        if s.peers.len() == 2 && i % 4 == 3 {
            s.notify_ms = 300;
            s.timeout_ms = 600;
            s.link.drop = 0.0;
            s.specs.clear();
            s.link_overrides.clear();
            if rr.chance(0.5) {
                s.kill = Some(Kill { node: 1, at_ms: rr.range(2000, 6000), pdrop: rr.pick(&[0.0, 0.5]) });
            } else {
                let h = s.peers[1][0];
                s.actions.push(Action { node: 0, when: Trigger::AtMs(rr.range(2000, 6000)), act: Act::Disconnect { h } });
                s.notify_ms = 300_000;
                s.timeout_ms = 600_000;
            }
            s.limit_ms = s.frames as u64 * 17 * 6 + 30_000;
            out.push(wcase(format!("alone-{i}"), s));
            continue;
        }
        s.limit_ms = s.frames as u64 * 17 * 6 + 30_000;
        out.push(wcase(format!("long-{i}"), s));
    }
    out
}

fn v(clause: &str, detail: String, node: Addr, t: u64) -> Viol {
    Viol { prop: "C18", clause: clause.into(), detail, t_ms: t.saturating_sub(T0) / MS, node, panic: None }
}

pub fn run_case(c: &WCase) -> Outcome {
    // live bytes allocated inside ggrs calls, sampled every 500 frames of node 0
    let mut samples: Vec<(i32, i64)> = vec![];
    let mut next_sample = 1000;
    let base_live = alloc::live_now();
    let w = run_scn_hook(&c.scn, Oracles { c02: true, ..Default::default() }, false, &mut |core, ni, _t| {
        if ni == 0 {
            let f = core.nodes[0].game.frame();
            if f >= next_sample {
                samples.push((f, alloc::live_now() - base_live));
                next_sample += 500;
            }
        }
    });
    let mut out = Outcome::new(world_desc(&w));
    absorb_obs(&mut out, &w);
    take_viols(&mut out, &w, "C18", &["C02"]);
    out.sig = world_sig(&w);
    if !w.viols.is_empty() {
        out.witness = world_witness(&w);
        return out;
    }
    let s = &c.scn;
    let (mp, d) = (s.mp, s.delay);
    let mut at_bound = 0;
    for n in w.nodes.iter() {
        let z = &n.sizes;
        let who = format!("node {} ({})", n.addr, if n.is_spec { "spectator" } else { "player" });
        let pend_bound = 128 + mp + d + 2;
        let recv_bound = 131 + 2 * mp + d;
        let checks: Vec<(&str, usize, usize)> = vec![
            ("event_queue", z.event_queue, 100),
            ("pending_local_inputs", z.pending_local_inputs, n.locals.len()),
            ("outgoing_local_inputs", z.outgoing_local_inputs, d + 1),
            ("local_checksum_history", z.local_checksum_history, 33),
            ("pending_output (remote players)", z.pending_output_remote, pend_bound),
            ("pending_output (spectators)", z.pending_output_spectator, pend_bound),
            ("recv_inputs", z.recv_inputs, recv_bound),
            ("pending_checksums", z.pending_checksums, 33),
            ("endpoint send_queue after a call", z.ep_send_queue_after_call, 0),
            ("endpoint event_queue after a call", z.ep_event_queue, 4),
        ];
        for (name, got, bound) in checks {
            out.count(&format!("max_{}", name.replace(' ', "_")), got as u64);
            if got > bound {
                out.violate(v("a buffer exceeded its bound", format!("{who}: {name} reached {got} (bound {bound}; window {mp}, delay {d}, {} local players)", n.locals.len()), n.addr, w.end_t));
                out.witness = world_witness(&w);
                return out;
            }
        }
        if z.event_queue == 100 || z.local_checksum_history >= 32 || z.pending_checksums >= 32 || z.pending_output_spectator >= 128 || z.recv_inputs >= 2 * mp + 1 {
            at_bound += 1;
        }
        if !n.is_spec && s.peers.len() == 1 && z.outgoing_local_inputs != 0 {
            out.violate(v("a session without remote peers queued outgoing inputs", format!("{who}: outgoing_local_inputs reached {}", z.outgoing_local_inputs), n.addr, w.end_t));
            return out;
        }
    }
    // a spectator that stopped acknowledging is disconnected rather than buffered for
    for (si, sp) in s.specs.iter().enumerate() {
        if let Some((a, _)) = sp.pauses.first() {
            let host = &w.nodes[sp.host];
            let silent_from = T0 + a * MS;
            let f0 = host.frame_times.iter().take_while(|(t, _)| *t <= silent_from).last().map(|x| x.1).unwrap_or(0);
            if host.game.frame() > f0 + 128 + mp as i32 + d as i32 + 80 {
                out.count("silent_spectators_judged", 1);
                let disc = host.events.iter().any(|(_, e)| matches!(e, Ev::Disconnected { addr } if *addr == spec_addr(si)));
                // a host that never drains events may have lost the event from its bounded queue
                if !disc && host.cfg.drain {
                    out.violate(v("a silent spectator was not disconnected", format!("host {} advanced from frame {f0} to {} after the spectator went silent, no Disconnected event; pending_output (spectators) reached {}", host.addr, host.game.frame(), host.sizes.pending_output_spectator), host.addr, w.end_t));
                    return out;
                }
            }
        }
    }
    // independent second monitor: live heap bytes allocated inside ggrs calls must not grow steadily
    if alloc::overflowed() {
        out.count("heap_monitor_table_overflows", 1);
    }
    if alloc::is_enabled() && !alloc::overflowed() && samples.len() >= 4 {
        out.count("heap_samples", samples.len() as u64);
        out.count("max_live_bytes_allocated_by_ggrs", samples.iter().map(|x| x.1).max().unwrap_or(0).max(0) as u64);
        let n = samples.len() as f64;
        let mx = samples.iter().map(|x| x.0 as f64).sum::<f64>() / n;
        let my = samples.iter().map(|x| x.1 as f64).sum::<f64>() / n;
        let sxy: f64 = samples.iter().map(|x| (x.0 as f64 - mx) * (x.1 as f64 - my)).sum();
        let sxx: f64 = samples.iter().map(|x| (x.0 as f64 - mx).powi(2)).sum();
        let slope = if sxx > 0.0 { sxy / sxx } else { 0.0 };
        let q = (samples.len() / 4).max(1);
        let first: f64 = samples[..q].iter().map(|x| x.1 as f64).sum::<f64>() / q as f64;
        let last: f64 = samples[samples.len() - q..].iter().map(|x| x.1 as f64).sum::<f64>() / q as f64;
        out.count("max_heap_slope_bytes_per_frame_x100", (slope.max(0.0) * 100.0) as u64);
        if slope > 16.0 && last - first > 65_536.0 {
            out.violate(v("live heap allocated inside ggrs calls grows steadily", format!("least-squares slope {slope:.1} bytes/frame over {} samples, mean of the last quarter exceeds the first by {:.0} bytes; samples {:?}", samples.len(), last - first, samples), 0, w.end_t));
            return out;
        }
    }
    let alone = c.id.starts_with("alone");
    let frames_min = w.nodes.iter().filter(|n| !n.is_spec && n.alive && (!alone || n.idx == 0)).map(|n| n.game.frame()).min().unwrap_or(0);
    out.nontrivial = frames_min >= 3000 && at_bound > 0;
    if frames_min < 3000 {
        out.inconclusive("fewer than 3000 frames before the virtual time cap");
    }
    out
}

pub fn check(ctx: &Ctx) -> i32 {
    let started = Instant::now();
    // the heap monitor of this check runs in-process: enable the counting allocator (cap irrelevant here)
    alloc::enable(usize::MAX / 2);
    let cs = filter_cases(ctx, cases(ctx));
    let res = par_run(ctx, &cs, &|c: &WCase| c.id.clone(), &run_case);
    let meta = Meta {
        level: "exploration",
        rule: "sessions of 3000 (quick), 5000 and 20000 (thorough) frames over all-local sessions ([[0]], [[0,1]]) and all P2P topologies, windows {0,2,8}, sparse on/off, detection interval {1,2}, clean and lossy links, events drained or never drained (incl. never-drained players and spectators on a flapping link that raises hundreds of interruption events), spectators that are attentive / on a lossy link / silent from a random time on; a quarter of the two-peer sessions lose their remote early (death, or explicit disconnect_player) and play on alone. The size hook is sampled after every API call and the maxima compared with bounds that depend only on the configuration: event_queue <= 100; pending_local_inputs <= #locals; outgoing_local_inputs <= delay+1 (0 without remotes); local_checksum_history <= 33; per endpoint pending_output <= 128+window+delay+2, recv_inputs <= 131+2*window+delay, pending_checksums <= 33, send_queue == 0 and event_queue <= 4 after a call; a silent spectator must be disconnected once the host has advanced 128+window+delay+80 frames past the silence. Second, independent monitor: the counting allocator tracks the live bytes that were allocated inside ggrs calls (whoever frees them); sampled every 500 frames from frame 1000 on, a violation needs a least-squares slope > 16 bytes/frame AND the last quarter's mean exceeding the first quarter's by > 64 KiB. Non-trivial: >= 3000 frames and at least one buffer reached its bound (event queue 100, checksum history 32, pending checksums 32, spectator pending output 128, recv_inputs 2*window+1). Distinct: configuration + trace hash.".into(),
        assumptions: std_assumptions(),
        floor_nontrivial: if ctx.quick() { 12 } else { 250 },
        exhaustive: None,
        extra: Map::new(),
    };
    conclude(ctx, meta, res, started).exit
}
