//! C17 — session behaviour is a function of its inputs, not of hash order.
use crate::base::*;
use crate::fw::*;
use crate::gen::*;
use crate::net::*;
use crate::scn::*;
use crate::world::*;
use serde_json::Map;
use std::time::Instant;

pub fn cases(ctx: &Ctx) -> Vec<WCase> {
    let mut out = vec![];
    let mut r = Rng::new(ctx.seed ^ 0xC17);
    for i in 0..ctx.n(2500, 100_000) {
        let mut rr = r.fork(i as u64);
        let mut s = gen_c01_space(&mut rr, 300);
        // at least three hash-iterated collections with >= 2 entries each
        s.peers = rr.pick(&[vec![vec![0, 1], vec![2, 3]], vec![vec![0], vec![1], vec![2]], vec![vec![0, 3], vec![1], vec![2]], vec![vec![0], vec![1], vec![2], vec![3]], vec![vec![0, 2], vec![1, 3]]]);
        s.link_overrides.clear();
        s.specs = vec![SpecCfg { catchup: 2, max_behind: 5, ..SpecCfg::new(0) }, SpecCfg::new(0)];
        if rr.chance(0.3) {
            s.specs.push(SpecCfg::new(1));
        }
        s.desync = Some(rr.range(1, 4) as u32);
        // different delays per local player
        for (ni, ls) in s.peers.clone().iter().enumerate() {
            for &h in ls {
                if rr.chance(0.5) {
                    s.actions.push(Action { node: ni, when: Trigger::AtFrame(0), act: Act::SetDelay { h, d: rr.below(4) as usize } });
                }
                if rr.chance(0.2) {
                    s.actions.push(Action { node: ni, when: Trigger::AtFrame(rr.range(30, 200) as i32), act: Act::SetDelay { h, d: rr.below(5) as usize } });
                }
            }
        }
        // a third of the meshes: one peer's game really diverges, so that DesyncDetected events are raised against
        // several addresses (which address is told what must not depend on hash order)
        if rr.chance(0.33) {
            let who = rr.below(s.peers.len() as u64) as usize;
            s.diverge = Some((who, rr.range(20, 150) as i32));
        }
        out.push(wcase(format!("mesh-{i}"), s));
    }
    for i in 0..ctx.n(800, 30_000) {
        let mut rr = r.fork(0x2000_0000 + i as u64);
        let mut s = gen_death2(&mut rr, 300);
        s.peers = vec![vec![0, 2], vec![1, 3]];
        s.specs = vec![SpecCfg::new(0), SpecCfg::new(0)];
        s.desync = Some(2);
        out.push(wcase(format!("death-{i}"), s));
    }
    // two peers of a four-peer mesh drop out one after the other (timeouts out of reach): the first is dropped by
    // everybody with an explicit call; the second only by ONE survivor, the other learns of it through gossip while it
    // still holds a dead endpoint in its (hash-ordered) endpoint map
    for i in 0..ctx.n(500, 20_000) {
        let mut rr = r.fork(0x3000_0000 + i as u64);
        let mut s = Scn::base(rr.next());
        s.peers = vec![vec![0], vec![1], vec![2], vec![3]];
        s.pred = rr.below(2) as u8;
        s.mp = rr.pick(&[2usize, 4, 8]);
        s.delay = rr.below(3) as usize;
        s.sparse = rr.chance(0.3);
        s.sticky = rr.pick(&[1u32, 3]);
        s.frames = 450;
        s.notify_ms = 50_000;
        s.timeout_ms = 60_000;
        s.link = Link::clean(rr.pick(&[0u64, 10, 30]));
        s.specs = vec![SpecCfg::new(0), SpecCfg::new(0)];
        s.desync = if rr.chance(0.5) { Some(3) } else { None };
        let t1 = rr.range(1500, 2500);
        s.kill = Some(Kill { node: 3, at_ms: t1, pdrop: 0.0 });
        for n in 0..3 {
            s.actions.push(Action { node: n, when: Trigger::AtMs(t1 + rr.range(150, 500)), act: Act::Disconnect { h: 3 } });
        }
        let t2 = t1 + rr.range(900, 1600);
        s.kill2 = Some(Kill { node: 2, at_ms: t2, pdrop: 0.0 });
        let caller = rr.below(2) as usize;
        s.actions.push(Action { node: caller, when: Trigger::AtMs(t2 + rr.range(150, 400)), act: Act::Disconnect { h: 2 } });
        s.start = Start::AllRunning;
        s.limit_ms = 14_000;
        s.settle_ms = 500;
        out.push(wcase(format!("twodrops-{i}"), s));
    }
    // two peers of a four-peer mesh die within a few frames of each other (different last frames); ONE survivor drops both
    // with explicit calls in the same tick, the other survivor learns of both drops from that survivor's gossip in one poll
    for i in 0..ctx.n(500, 20_000) {
        let mut rr = r.fork(0x4000_0000 + i as u64);
        let mut s = Scn::base(rr.next());
        s.peers = vec![vec![0], vec![1], vec![2], vec![3]];
        s.pred = rr.below(2) as u8;
        s.mp = rr.pick(&[4usize, 8, 12]);
        s.delay = rr.below(3) as usize;
        s.sparse = rr.chance(0.3);
        s.sticky = rr.pick(&[1u32, 3]);
        s.frames = 450;
        s.notify_ms = 50_000;
        s.timeout_ms = 60_000;
        s.link = Link::clean(rr.pick(&[0u64, 10, 30]));
        s.specs = vec![SpecCfg::new(0), SpecCfg::new(0)];
        s.desync = if rr.chance(0.5) { Some(3) } else { None };
        let t1 = rr.range(1500, 2500);
        let (first, second) = if rr.chance(0.5) { (2usize, 3usize) } else { (3, 2) };
        s.kill = Some(Kill { node: first, at_ms: t1, pdrop: 0.0 });
        s.kill2 = Some(Kill { node: second, at_ms: t1 + rr.range(40, 120), pdrop: 0.0 });
        let caller = rr.below(2) as usize;
        let at = t1 + rr.range(300, 600);
        s.actions.push(Action { node: caller, when: Trigger::AtMs(at), act: Act::Disconnect { h: 2 } });
        s.actions.push(Action { node: caller, when: Trigger::AtMs(at), act: Act::Disconnect { h: 3 } });
        s.start = Start::AllRunning;
        s.limit_ms = 14_000;
        s.settle_ms = 500;
        out.push(wcase(format!("doubledrop-{i}"), s));
    }
    out
}

pub fn run_case_k(c: &WCase, reps: usize) -> Outcome {
    let mut runs: Vec<Core> = vec![];
    for _ in 0..reps {
        runs.push(run_scn(&c.scn, Oracles::default()));
    }
    let w0 = &runs[0];
    let mut out = Outcome::new(world_desc(w0));
    absorb_obs(&mut out, w0);
    out.sig = world_sig(w0);
    for w in &runs {
        for vv in &w.viols {
            if vv.prop == "PANIC" {
                out.violate(vv.clone());
            }
        }
    }
    if !matches!(out.verdict, Verdict::Held) {
        return out;
    }
    let ev = canon_events;
    for (k, w) in runs.iter().enumerate().skip(1) {
        for (a, b) in w0.nodes.iter().zip(w.nodes.iter()) {
            out.count("request_lists_compared", a.game.call_hashes.len() as u64);
            let first_div = a.game.call_hashes.iter().zip(b.game.call_hashes.iter()).position(|(x, y)| x != y);
            let what = if first_div.is_some() || a.game.call_hashes.len() != b.game.call_hashes.len() {
                Some(format!("request lists differ first at call {first_div:?} ({} vs {} calls)", a.game.call_hashes.len(), b.game.call_hashes.len()))
            } else if a.game.st != b.game.st {
                Some(format!("final states differ: {:?} vs {:?}", a.game.st, b.game.st))
            } else if a.errs != b.errs || a.api_hash != b.api_hash {
                Some(format!("API results differ: {:?} vs {:?}", a.errs, b.errs))
            } else if ev(a) != ev(b) {
                let (ea, eb) = (ev(a), ev(b));
                let d = ea.iter().zip(eb.iter()).find(|(x, y)| x != y).map(|(x, y)| format!("{x:?} vs {y:?}")).unwrap_or_else(|| format!("{} vs {} events", ea.len(), eb.len()));
                Some(format!("per-address event sequences differ: {d}"))
            } else {
                None
            };
            if let Some(d) = what {
                out.violate(Viol { prop: "C17", clause: "two executions with identical calls, packets and clock readings behaved differently".into(), detail: format!("node {} ({}), repetition 0 vs {k}: {d}", a.addr, if a.is_spec { "spectator" } else { "player" }), t_ms: 0, node: a.addr, panic: None });
                out.witness = world_witness(w);
                return out;
            }
        }
    }
    out.count("repetitions", reps as u64);
    let rollbacks: u64 = w0.nodes.iter().map(|n| n.game.c.loads).sum();
    out.nontrivial = rollbacks > 0 && (c.scn.peers.len() >= 3 || c.scn.peers.iter().any(|l| l.len() >= 2)) && c.scn.specs.len() >= 2;
    out
}

pub fn check(ctx: &Ctx) -> i32 {
    let started = Instant::now();
    let cs = filter_cases(ctx, cases(ctx));
    let reps = if ctx.quick() { 3 } else { 5 };
    let res = par_run(ctx, &cs, &|c: &WCase| c.id.clone(), &|c: &WCase| run_case_k(c, reps));
    let meta = Meta {
        level: "exploration",
        rule: format!("every scenario is executed {reps} times inside one process (each std HashMap gets a fresh RandomState, magic numbers and sync nonces are fresh random values) under the deterministic simulated clock and network, whose per-link PRNG streams and canonical delivery order make 'same received packets in the same order' hold inductively as long as each session's per-link output is deterministic. Scenarios: C01's space restricted to meshes of 3-4 peers or 2 local players per peer, 2-3 spectators, desync detection on, different input delays per local player (set_input_delay), a genuinely diverging peer in a third of them, plus two-peer deaths with two players per side, plus four-peer meshes in which two peers drop out one after the other (the first dropped by everybody with disconnect_player, the second by one survivor only, so that the other adopts it from gossip while holding a dead endpoint; or both drops made by one survivor in the same tick, so that the other learns of two newly dropped players with different last frames in a single poll). Compared between repetitions, per node: the hash of every request list (kinds, frames, input values, statuses), final state, API results, and per remote address the event sequence with virtual timestamps. Non-trivial: >= 2 hash-iterated collections with >= 2 entries (players per peer / remotes / spectators) and >= 1 rollback. Distinct: configuration + trace hash."),
        assumptions: std_assumptions(),
        floor_nontrivial: if ctx.quick() { 200 } else { 5000 },
        exhaustive: None,
        extra: Map::new(),
    };
    conclude(ctx, meta, res, started).exit
}
