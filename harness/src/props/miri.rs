//! Optional second observer: a few tiny workloads meant to be run under Miri
//! (`tools/miri_shard.sh`). Decides no property; shows that the paths the monitors drive
//! (GameStateCell traffic through parking_lot's mapped guards, bincode, the codec, hash maps) are
//! free of undefined behaviour in the dependencies on these executions.
use crate::base::*;
use crate::net::*;
use crate::scn::*;
use crate::world::*;
use ggrs::verif_hooks as vh;

pub fn run() -> i32 {
    let mut bad = 0;
    // (a) two lossy peers + spectator, all basic oracles, 70 frames
    let mut s = Scn::base(7);
    s.frames = 70;
    s.mp = 3;
    s.delay = 1;
    s.link = Link { drop: 0.1, dup: 0.1, base_ms: 10, jitter_ms: 20, outages: vec![], faults: vec![], stragglers: vec![] };
    s.specs.push(SpecCfg::new(0));
    s.desync = Some(2);
    let w = run_scn(&s, Oracles::all_basic());
    println!("miri shard a: two lossy peers + spectator: frames {:?}, rollbacks {}, violations {}", w.nodes.iter().map(|n| n.game.frame()).collect::<Vec<_>>(), w.nodes.iter().map(|n| n.game.c.loads).sum::<u64>(), w.viols.len());
    bad += w.viols.len();
    // (b) sparse saving, two local players per peer, a death
    let mut s = Scn::base(11);
    s.peers = vec![vec![0, 2], vec![1, 3]];
    s.frames = 60;
    s.sparse = true;
    s.mp = 4;
    s.notify_ms = 100;
    s.timeout_ms = 200;
    s.kill = Some(Kill { node: 1, at_ms: 600, pdrop: 0.5 });
    s.start = Start::AllRunning;
    let w = run_scn(&s, Oracles { c02: true, c03: true, ..Default::default() });
    println!("miri shard b: sparse 2+2 players with a death: frames {:?}, violations {}", w.nodes.iter().map(|n| n.game.frame()).collect::<Vec<_>>(), w.viols.len());
    bad += w.viols.len();
    // (c) codec: every byte string of length <= 1 against 3 references, plus round trips
    let mut outcomes = [0u32; 3];
    for rf in crate::props::c14::REFS {
        for len in 0..=1usize {
            for i in 0..(1usize << (8 * len)) {
                let data: Vec<u8> = (0..len).map(|k| (i >> (8 * k)) as u8).collect();
                match guarded(|| vh::codec_decode(rf, &data)) {
                    Ok(Ok(_)) => outcomes[0] += 1,
                    Ok(Err(_)) => outcomes[1] += 1,
                    Err(_) => outcomes[2] += 1,
                }
            }
        }
    }
    let seq = vec![vec![0u8; 7], vec![0xFF; 9], vec![1, 2, 3], vec![]];
    let enc = vh::codec_encode(&[0, 0, 0, 1], &seq);
    let rt = vh::codec_decode(&[0, 0, 0, 1], &enc) == Ok(seq);
    println!("miri shard c: codec decodes ok/err/panic = {outcomes:?}, round trip {rt}");
    if outcomes[2] > 0 || !rt {
        bad += 1;
    }
    println!("miri shard: {}", if bad == 0 { "clean" } else { "PROBLEMS" });
    (bad > 0) as i32
}
