//! C06 — a spectator replays exactly the host's confirmed input sequence.
use crate::base::*;
use crate::fw::*;
use crate::gen::*;
use crate::net::*;
use crate::scn::*;
use crate::world::*;
use ggrs::InputStatus;
use serde_json::Map;
use std::time::Instant;

fn host_topo(r: &mut Rng) -> Vec<Vec<usize>> {
    r.pick(&[vec![vec![0]], vec![vec![0, 1]], vec![vec![0], vec![1]], vec![vec![0, 1], vec![2]], vec![vec![0], vec![1], vec![2]], vec![vec![0, 2], vec![1, 3]]])
}

pub fn gen_spectated(r: &mut Rng, frames: i32) -> Scn {
    let mut s = Scn::base(r.next());
    s.peers = host_topo(r);
    s.pred = r.below(2) as u8;
    s.mp = r.pick(&[0usize, 1, 2, 3, 8, 12]);
    s.delay = r.below(4) as usize;
    s.sparse = r.chance(0.4);
    s.sticky = r.pick(&[1u32, 3]);
    s.frames = frames;
    s.notify_ms = 20_000;
    s.timeout_ms = 30_000;
    s.link = Link { drop: r.pick(&[0.0, 0.0, 0.05]), dup: r.pick(&[0.0, 0.1]), base_ms: r.pick(&[0u64, 10, 40]), jitter_ms: r.pick(&[0u64, 5, 20]), outages: vec![], faults: vec![], stragglers: vec![] };
    let nsp = r.range(1, 2) as usize;
    for si in 0..nsp {
        let mut sp = SpecCfg::new(r.below(s.peers.len() as u64) as usize);
        sp.catchup = r.pick(&[1usize, 2, 5, 30, 70]);
        sp.max_behind = r.pick(&[1usize, 5, 10, 40, 59]);
        sp.period_factor = r.pick(&[0.5, 0.8, 1.0, 1.0, 1.3, 2.0]);
        if r.chance(0.4) {
            let a = r.range(1500, 4000);
            sp.pauses.push((a, a + r.pick(&[200u64, 500, 900, 1500, 3000])));
        }
        // the spectator link may be worse than the player links
        let l = Link { drop: r.pick(&[0.0, 0.0, 0.05, 0.2]), dup: r.pick(&[0.0, 0.1]), base_ms: r.pick(&[0u64, 10, 40, 100]), jitter_ms: r.pick(&[0u64, 5, 40]), outages: vec![], faults: vec![], stragglers: vec![] };
        s.link_overrides.push((peer_addr(sp.host), spec_addr(si), l.clone()));
        s.link_overrides.push((spec_addr(si), peer_addr(sp.host), l));
        s.specs.push(sp);
    }
    s.settle_ms = 1500;
    s
}

pub fn cases(ctx: &Ctx) -> Vec<WCase> {
    let mut out = vec![];
    let mut r = Rng::new(ctx.seed ^ 0xC06);
    for i in 0..ctx.n(5000, 250_000) {
        let mut rr = r.fork(i as u64);
        out.push(wcase(format!("spec-{i}"), gen_spectated(&mut rr, 500)));
    }
    // host-side player death
    for i in 0..ctx.n(2000, 80_000) {
        let mut rr = r.fork(0x2000_0000 + i as u64);
        let mut s = gen_death2(&mut rr, 500);
        let mut sp = SpecCfg::new(0);
        sp.catchup = rr.pick(&[1usize, 2, 5]);
        sp.max_behind = rr.pick(&[1usize, 5, 10]);
        s.specs.push(sp);
        if rr.chance(0.3) {
            let k = s.kill.clone().unwrap();
            let mut l = s.link.clone();
            l.stragglers.push(Straggler { from_ms: k.at_ms.saturating_sub(rr.range(50, 400)), to_ms: k.at_ms + s.timeout_ms, every: rr.range(1, 3), delay_ms: s.timeout_ms + rr.range(20, 400), hold: false });
            s.link_overrides.push((peer_addr(0), spec_addr(0), l));
        }
        s.settle_ms = 1500;
        out.push(wcase(format!("death-{i}"), s));
    }
    // host-side player death with a spectator that is catching up, several frames per call, when it crosses the
    // dropped player's last frame
    for i in 0..ctx.n(1500, 60_000) {
        let mut rr = r.fork(0x2800_0000 + i as u64);
        let mut s = gen_death2(&mut rr, 500);
        let k = s.kill.clone().unwrap();
        let mut sp = SpecCfg::new(0);
        sp.catchup = rr.pick(&[2usize, 3, 5, 8]);
        sp.max_behind = rr.pick(&[1usize, 2, 5]);
        // a slow spectator (ticks at 1/1.5 .. 1/3 of the host's rate) is permanently behind and catches up all the time; a
        // pause would not do: with the short timeouts of this family the host would drop the silent spectator
        sp.period_factor = rr.pick(&[1.5, 2.0, 3.0]);
        s.specs.push(sp);
        // half of them: straggling copies of host->spectator packets sent before the drop arrive after it (old connection
        // statuses behind newer ones)
        if rr.chance(0.5) {
            let mut l = s.link.clone();
            l.stragglers.push(Straggler { from_ms: k.at_ms.saturating_sub(rr.range(50, 400)), to_ms: k.at_ms + s.timeout_ms, every: rr.range(1, 3), delay_ms: s.timeout_ms + rr.range(20, 400), hold: false });
            s.link_overrides.push((peer_addr(0), spec_addr(0), l));
        }
        s.settle_ms = 2000;
        out.push(wcase(format!("deathcatchup-{i}"), s));
    }
    // a LIVE remote dropped by the host's application, with input delay and/or running ahead of the host, so that its last
    // frames are forwarded to the spectator only AFTER it was marked as dropped
    for i in 0..ctx.n(1500, 60_000) {
        let mut rr = r.fork(0x2900_0000 + i as u64);
        let mut s = gen_death2(&mut rr, 500);
        s.kill = None;
        s.notify_ms = 20_000;
        s.timeout_ms = 30_000;
        s.delay = rr.below(4) as usize;
        let h = s.peers[1][0];
        s.actions.push(Action { node: 0, when: Trigger::AtMs(rr.range(1500, 3500)), act: Act::Disconnect { h } });
        let mut fast = NodeCfg::default();
        fast.skew = rr.pick(&[0.0, -0.05, -0.1]);
        s.nodes = vec![NodeCfg::default(), fast];
        let mut sp = SpecCfg::new(0);
        sp.catchup = rr.pick(&[1usize, 2, 5]);
        sp.max_behind = rr.pick(&[1usize, 5, 10]);
        s.specs.push(sp);
        s.settle_ms = 1500;
        out.push(wcase(format!("apidrop-{i}"), s));
    }
    // differential: the same scenario with and without spectators
    for i in 0..ctx.n(2000, 80_000) {
        let mut rr = r.fork(0x3000_0000 + i as u64);
        let mut s = gen_spectated(&mut rr, 400);
        if s.peers.len() < 2 {
            s.peers = vec![vec![0], vec![1]];
            for sp in s.specs.iter_mut() {
                sp.host = sp.host.min(1);
            }
        }
        for sp in s.specs.iter_mut() {
            sp.pauses.clear();
        }
        s.start = Start::AtMs(2500);
        out.push(wcase(format!("diff-{i}"), s));
    }
    out
}

/// spectator frames against the host's final timeline (values and Disconnected-ness)
fn compare_with_host(w: &Core, out: &mut Outcome) {
    compare_with_host_pub(w, out, "C06")
}
pub fn compare_with_host_pub(w: &Core, out: &mut Outcome, prop: &'static str) {
    for n in w.nodes.iter().filter(|n| n.is_spec) {
        let host = &w.nodes[n.host.unwrap()];
        let lim = host.conf_max.min(host.game.frame() - 1);
        for f in 0..n.game.frames_recorded() {
            if f > lim {
                break;
            }
            let (Some(a), Some(b)) = (n.game.row(f), host.game.row(f)) else { continue };
            out.count("spectator_frames_compared_with_host_timeline", 1);
            for h in 0..w.np {
                let sd = a[h].1 == InputStatus::Disconnected;
                let hd = b[h].1 == InputStatus::Disconnected;
                if sd || hd {
                    out.count("disconnected_statuses_compared", 1);
                }
                if a[h].0 != b[h].0 || sd != hd {
                    out.violate(Viol {
                        prop,
                        clause: "spectator frame differs from the host's final timeline".into(),
                        detail: format!("spectator {} frame {f} player {h}: spectator {:?}, host {:?}", n.addr, a[h], b[h]),
                        t_ms: w.end_t.saturating_sub(T0) / MS,
                        node: n.addr,
                        panic: None,
                    });
                    return;
                }
            }
        }
    }
}

pub fn run_case(c: &WCase) -> Outcome {
    let o = Oracles { c06: true, c02: true, ..Default::default() };
    let diff = c.id.starts_with("diff-");
    let mut out = run_world_case(c, o, "C06", &["C02"], &|w, out| {
        out.count("spectator_frames_checked_online", w.obs.spec_frames_checked);
        out.count("catchup_calls", w.obs.spec_catchup_calls);
        out.count("prediction_threshold_waits", w.obs.spec_waits);
        out.count("spectator_too_far_behind_errors", w.obs.spec_too_far_behind);
        if matches!(out.verdict, Verdict::Held) {
            compare_with_host(w, out);
        }
        let spec_disc = w.nodes.iter().any(|n| n.events.iter().any(|(_, e)| matches!(e, Ev::Disconnected { addr } if *addr >= 100)));
        if spec_disc {
            out.count("runs_where_host_disconnected_a_spectator", 1);
        }
        let paused = w.scn.specs.iter().any(|s| s.pauses.iter().any(|p| p.1 - p.0 > 1100));
        if paused && w.obs.spec_too_far_behind > 0 {
            out.count("runs_with_too_far_behind_after_pause", 1);
        }
        out.nontrivial = w.obs.spec_frames_checked >= 200 && w.obs.spec_waits > 0 && (w.obs.spec_catchup_calls > 0 || w.scn.specs.iter().all(|s| s.catchup == 1)) && (!paused || w.obs.spec_too_far_behind > 0 || w.obs.spec_catchup_calls > 0);
    });
    if diff && matches!(out.verdict, Verdict::Held) {
        // same scenario without spectators: the players must simulate exactly the same
        let with = run_scn(&c.scn, Oracles::default());
        let mut s2 = c.scn.clone();
        s2.specs.clear();
        s2.link_overrides.retain(|l| l.0 < 100 && l.1 < 100);
        let without = run_scn(&s2, Oracles::default());
        let not_ready = |w: &Core| w.nodes.iter().any(|n| n.running_at.is_none_or(|t| t > T0 + 2500 * MS));
        if not_ready(&with) || not_ready(&without) {
            out.inconclusive("a handshake was still open at the fixed start time");
            return out;
        }
        if !with.viols.is_empty() || !without.viols.is_empty() {
            out.inconclusive("twin run stopped early");
            return out;
        }
        out.count("differential_pairs", 1);
        for pi in 0..s2.peers.len() {
            let (a, b) = (&with.nodes[pi], &without.nodes[pi]);
            out.count("differential_lists_compared", a.game.call_hashes.len() as u64);
            // per-address sequences: the interleaving of different addresses within one poll is unspecified
            let ev = |n: &Node| canon_events(n).into_iter().filter(|(_, e)| e.addr().is_none_or(|x| x < 100)).collect::<Vec<_>>();
            let first_div = a.game.call_hashes.iter().zip(b.game.call_hashes.iter()).position(|(x, y)| x != y);
            if first_div.is_some() || a.game.call_hashes.len() != b.game.call_hashes.len() || a.game.st != b.game.st || ev(a) != ev(b) || a.errs != b.errs {
                out.violate(Viol {
                    prop: "C06",
                    clause: "attaching spectators changed what a player simulates".into(),
                    detail: format!(
                        "player node {}: first differing request list index {:?} (lists {} vs {}), final state {:?} vs {:?}, first differing event {:?}, errors {:?} vs {:?}",
                        a.addr,
                        first_div,
                        a.game.call_hashes.len(),
                        b.game.call_hashes.len(),
                        a.game.st,
                        b.game.st,
                        ev(a).iter().zip(ev(b).iter()).find(|(x, y)| x != y).map(|(x, y)| format!("{x:?} vs {y:?}")).unwrap_or_else(|| format!("lengths {} vs {}", ev(a).len(), ev(b).len())),
                        a.errs,
                        b.errs
                    ),
                    t_ms: 0,
                    node: a.addr,
                    panic: None,
                });
                out.witness = world_witness(&with);
                break;
            }
        }
    }
    out
}

pub fn check(ctx: &Ctx) -> i32 {
    let started = Instant::now();
    let cs = filter_cases(ctx, cases(ctx));
    let res = par_run(ctx, &cs, &|c: &WCase| c.id.clone(), &run_case);
    let meta = Meta {
        level: "exploration",
        rule: "hosts of 6 topologies (all-local, two-peer, 2+1 locals, three-peer, 2+2) with 1-2 spectators on any peer; catchup_speed {1,2,5,30,70}, max_frames_behind {1,5,10,40,59}; spectator tick rate 0.5x..2x, pauses 0.2..3 s (beyond the 60-frame ring), loss/dup/jitter/latency on the spectator link; host-side player deaths; and a differential family in which the same scenario is run with and without its spectators from a fixed virtual start time. Online: the n-th AdvanceFrame of a spectator must carry the truth (== host's confirmed timeline) for every player, status Confirmed, never beyond the host's confirmed frame; a call advancing k>1 frames needs k <= catchup_speed and more than max_frames_behind frames buffered. Offline: every spectator frame equals the host's final timeline in value and Disconnected-ness; the players' request traces, final states, errors and player-address events are identical with and without spectators. Non-trivial: >=200 spectator frames compared, >=1 PredictionThreshold wait, >=1 catch-up call where catch-up is configured, and after a long pause a SpectatorTooFarBehind or a catch-up. Distinct: configuration bucket + trace hash.".into(),
        assumptions: std_assumptions(),
        floor_nontrivial: if ctx.quick() { 150 } else { 4000 },
        exhaustive: None,
        extra: Map::new(),
    };
    conclude(ctx, meta, res, started).exit
}
