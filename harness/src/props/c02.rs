//! C02 — the request list of every advance_frame call is executable and frame-consistent.
use crate::base::*;
use crate::fw::*;
use crate::gen::*;
use crate::scn::*;
use crate::world::*;
use serde_json::Map;
use std::time::Instant;

pub fn cases(ctx: &Ctx) -> Vec<WCase> {
    let mut out = vec![];
    let mut r = Rng::new(ctx.seed ^ 0xC02);
    for i in 0..ctx.n(6000, 300_000) {
        let mut rr = r.fork(i as u64);
        out.push(wcase(format!("c01space-{i}"), gen_c01_space(&mut rr, 500)));
    }
    for i in 0..ctx.n(3000, 150_000) {
        let mut rr = r.fork(0x2000_0000 + i as u64);
        out.push(wcase(format!("starved-{i}"), gen_starved(&mut rr, 400)));
    }
    for i in 0..ctx.n(2000, 100_000) {
        let mut rr = r.fork(0x3000_0000 + i as u64);
        let mut s = gen_c01_space(&mut rr, 400);
        // spectators: advance-only lists
        let nsp = rr.range(1, 2) as usize;
        for _ in 0..nsp {
            let mut sp = SpecCfg::new(rr.below(s.peers.len() as u64) as usize);
            sp.catchup = rr.pick(&[1usize, 2, 5, 30]);
            sp.max_behind = rr.pick(&[1usize, 5, 10, 40]);
            sp.period_factor = rr.pick(&[0.5, 1.0, 1.0, 2.0]);
            s.specs.push(sp);
        }
        s.mp = rr.pick(&[0usize, 1, 2, 8]);
        out.push(wcase(format!("spectated-{i}"), s));
    }
    out
}

pub fn run_case(c: &WCase) -> Outcome {
    let o = Oracles { c02: true, c02_saved: true, ..Default::default() };
    run_world_case(c, o, "C02", &[], &|w, out| {
        out.count("saved_frame_invariant_checks", w.obs.saved_invariant_checks);
        out.count("cells_inspected", w.obs.cells_inspected);
        if w.scn.sparse && w.scn.mp > 0 {
            out.count("runs_sparse", 1);
        } else if w.scn.mp > 0 {
            out.count("runs_non_sparse", 1);
        } else {
            out.count("runs_lockstep", 1);
        }
        let mut spec_lists = 0;
        for n in w.nodes.iter().filter(|n| n.is_spec) {
            spec_lists += n.game.c.lists;
        }
        out.count("spectator_lists", spec_lists);
        let deep_resaved = w.nodes.iter().any(|n| n.game.c.loads_of_resaved > 0 && n.game.c.max_depth >= 2);
        out.nontrivial = (deep_resaved && w.obs.stalls > 0) || (w.scn.mp == 0 && w.obs.lockstep_stalls > 0 && w.obs.new_frames > 100) || (spec_lists > 200 && w.obs.spec_waits > 0);
    })
}

pub fn check(ctx: &Ctx) -> i32 {
    let started = Instant::now();
    let cs = filter_cases(ctx, cases(ctx));
    let mut res = par_run(ctx, &cs, &|c: &WCase| c.id.clone(), &run_case);
    res.extend(crate::props::c13::contract_cases_for_c02(ctx));
    let meta = Meta {
        level: "exploration",
        rule: "every request list of every call in (a) random scenarios of C01's space, (b) starved-peer scenarios (windows 0..=12 incl. lockstep, delays 0..=6, outages 17 ms..50 s, paused remotes, lockstep wait helpers), (c) sessions with 1-2 spectators, (d) SyncTest sessions over a configuration grid, is executed in order against a shadow game that checks: Save names the game's frame; Load names an earlier frame, its cell is non-empty, holds that frame and the state of that frame on the current timeline; frame after the list == current_frame() (+1 for spectators); delta in {0,+1}; first simulation of frame 0 preceded by Save(0); plus the invariant that every frame that can still be rolled back to is held by a retained cell (sparse: the last saved frame). Non-trivial: a rollback of depth >=2 that loaded a cell re-saved on a corrected timeline plus >=1 stall; or a lockstep run with stalls; or a spectator run with >=200 lists and >=1 wait; or a SyncTest run with check distance >=2. Distinct: configuration bucket + trace hash.".into(),
        assumptions: std_assumptions(),
        floor_nontrivial: if ctx.quick() { 200 } else { 5000 },
        exhaustive: None,
        extra: Map::new(),
    };
    conclude(ctx, meta, res, started).exit
}
