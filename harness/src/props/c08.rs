//! C08 — malformed or foreign packets are discarded without panic or effect.
use crate::base::*;
use crate::child::*;
use crate::fw::*;
use crate::gen::*;
use crate::net::*;
use crate::scn::*;
use crate::world::*;
use ggrs::verif_hooks as vh;
use serde_json::{json, Map, Value};
use std::time::{Duration, Instant};

pub const K_STATUS: u8 = 0;
pub const K_NEGSTART: u8 = 1;
pub const K_RANDOM: u8 = 2;
pub const K_WRONGSIZE: u8 = 3;
pub const K_UNKNOWN_ADDR: u8 = 4;
pub const K_FOREIGN_MAGIC: u8 = 5;
pub const K_MUTATED: u8 = 6;
pub const K_BOMB: u8 = 7;
pub const K_EXHAUSTIVE: u8 = 8;
pub const K_MIXED: u8 = 9;
/// genuine NEW frames (the sender's true inputs the victim has not received yet) followed by a frame of the wrong size
pub const K_GENUINE_TAIL: u8 = 10;
/// a completely well-formed Input packet that CONTINUES the sender's stream (next frames, right sizes, encoded against the
/// right reference, bogus values) but carries another session's magic number: the only thing wrong with it is the magic
pub const K_FOREIGN_CONT: u8 = 11;
pub const CLASS_NAMES: [&str; 12] = ["status-count", "negative-start", "random-payload", "wrong-frame-size", "unknown-address", "foreign-magic", "mutated-payload", "run-length-bomb", "exhaustive-payload<=2", "mixed", "genuine-new-frames-then-wrong-size", "foreign-magic-stream-continuation"];
/// classes that are rejected before any processing: raw trace equality is demanded
fn preprocessing_class(k: u8) -> bool {
    matches!(k, K_STATUS | K_NEGSTART | K_UNKNOWN_ADDR | K_FOREIGN_MAGIC | K_FOREIGN_CONT)
}

fn varint(mut vv: u64) -> Vec<u8> {
    let mut o = vec![];
    while vv > 127 {
        o.push((vv as u8) | 128);
        vv >>= 7;
    }
    o.push(vv as u8);
    o
}

pub struct InjState {
    pub n: u64,
    pub by_class: [u64; 12],
    pub skipped_spoof_like: u64,
    pub no_base_packet: u64,
}

/// Builds one forged packet for the victim's current tick and puts it on the wire.
pub fn inject_hook(core: &mut Core, ni: usize, t: u64, st: &mut InjState) {
    let Some(inj) = core.scn.inject.clone() else { return };
    if ni != inj.victim {
        return;
    }
    let rel = t.saturating_sub(T0) / MS;
    if rel < inj.after_ms || rel >= inj.until_ms {
        return;
    }
    // outside the handshake family, packets are only injected once the victim's session is Running:
    // before that an endpoint does not know its peer's magic number yet, so "foreign" is undefined
    if !inj.synthesize && !core.nodes[ni].fin.running {
        return;
    }
    if !core.inject_rng.chance(inj.p) {
        return;
    }
    let victim_addr = core.nodes[ni].addr;
    let victim_is_spec = core.nodes[ni].is_spec;
    let from = inj.from_addr;
    let np = core.np;
    // bytes per frame the victim expects from this sender
    let right = if victim_is_spec { 4 * np } else { core.scn.peers.get(from as usize - 1).map(|l| 4 * l.len()).unwrap_or(4) };
    let mut r = core.inject_rng.fork(st.n);
    let mut class = inj.class;
    if class == K_MIXED {
        class = r.pick(&[K_STATUS, K_NEGSTART, K_RANDOM, K_WRONGSIZE, K_UNKNOWN_ADDR, K_FOREIGN_MAGIC, K_MUTATED, K_BOMB, K_GENUINE_TAIL, K_FOREIGN_CONT]);
    }
    let (base_input, base_any) = {
        let net = core.net.borrow();
        (net.last_input_delivered.get(&(from, victim_addr)).cloned(), net.last_any_delivered.get(&(from, victim_addr)).cloned())
    };
    let synth = || WMsg { magic: base_any.as_ref().map(|m| m.magic).unwrap_or(0x1234), body: WBody::Input { st: (0..np).map(|_| WConn { disconnected: false, last_frame: -1 }).collect(), disc: false, start: 0, ack: -1, bytes: vec![] } };
    let mut m: WMsg = match class {
        K_UNKNOWN_ADDR | K_FOREIGN_MAGIC => match (&base_any, inj.synthesize) {
            (Some(b), _) => {
                // any packet type: alternate between the last packet of any kind and the last input packet
                if r.chance(0.5) {
                    b.clone()
                } else {
                    base_input.clone().unwrap_or_else(|| b.clone())
                }
            }
            (None, true) => synth(),
            _ => {
                st.no_base_packet += 1;
                return;
            }
        },
        _ => match (&base_input, inj.synthesize) {
            (Some(b), _) => b.clone(),
            (None, true) => synth(),
            _ => {
                st.no_base_packet += 1;
                return;
            }
        },
    };
    let mut from_used = from;
    let mut desc = String::new();
    match class {
        K_STATUS => {
            if let WBody::Input { st: sts, .. } = &mut m.body {
                match r.below(4) {
                    0 => sts.clear(),
                    1 => {
                        sts.pop();
                    }
                    2 => sts.push(WConn { disconnected: false, last_frame: 5 }),
                    _ => {
                        for _ in 0..1000 {
                            sts.push(WConn { disconnected: true, last_frame: 0 });
                        }
                    }
                }
                // the packet is rejected as a whole: hostile gossip in the (wrongly sized) status list
                // must be ignored as well
                let hostile = r.chance(0.5);
                if hostile {
                    for c in sts.iter_mut() {
                        c.disconnected = r.chance(0.5);
                        c.last_frame = r.below(50) as i32;
                    }
                }
                desc = format!("{} connection statuses (session has {np} players){}", sts.len(), if hostile { ", hostile flags" } else { "" });
            }
            if let WBody::Input { ack, .. } = &mut m.body {
                if r.chance(0.4) {
                    *ack += 1 + r.below(1000) as i32;
                    desc.push_str(", ack ahead");
                }
            }
            // towards an endpoint whose peer was ALREADY dropped, the wrongly sized status list may also come with the
            // disconnect flag set (on a live endpoint a flagged packet is a well-formed disconnect request: not injected)
            if inj.replay_genuine && r.chance(0.4) {
                if let WBody::Input { disc, .. } = &mut m.body {
                    *disc = true;
                    desc.push_str(", disconnect_requested");
                }
            }
        }
        K_NEGSTART => {
            if let WBody::Input { start, .. } = &mut m.body {
                *start = -(1 + r.below(1000) as i32) - if r.chance(0.1) { i32::MAX / 2 } else { 0 };
                desc = format!("start frame {start}");
            }
            // a packet with a negative start frame is dropped as a whole: whatever else it carries
            // (a disconnect request, gossip about dropped players, an ack ahead of the truth) must
            // have no effect either
            if let WBody::Input { st: sts, disc, ack, .. } = &mut m.body {
                match r.below(5) {
                    0 => {
                        *disc = true;
                        desc.push_str(" + disconnect_requested");
                    }
                    1 => {
                        let i = r.below(sts.len().max(1) as u64) as usize;
                        if let Some(c) = sts.get_mut(i) {
                            c.disconnected = true;
                            c.last_frame = r.below(30) as i32;
                            desc.push_str(&format!(" + status[{i}] disconnected at {}", c.last_frame));
                        }
                    }
                    2 => {
                        *ack += 1 + r.below(1000) as i32;
                        desc.push_str(" + ack ahead");
                    }
                    _ => {}
                }
            }
        }
        K_UNKNOWN_ADDR => {
            from_used = 777 + r.below(3) as Addr;
            desc = format!("{} from unknown address {from_used}", KIND_NAMES[kind(&m) as usize]);
        }
        K_FOREIGN_MAGIC => {
            if inj.synthesize {
                // during the handshake the peer's magic is not known yet, so only packets that prove nothing are "foreign":
                // a sync request with a nonce of its own (most of the time) or any non-handshake message. A SyncReply that
                // echoes a genuine nonce would be a well-formed spoof.
                if r.chance(0.7) || matches!(m.body, WBody::SyncReply { .. }) {
                    m.body = WBody::SyncRequest { r: r.next() as u32 };
                }
            }
            m.magic = m.magic.wrapping_add(1 + r.below(60_000) as u16);
            desc = format!("{} with foreign magic {:#x}", KIND_NAMES[kind(&m) as usize], m.magic);
        }
        K_FOREIGN_CONT => {
            // the newest frame the victim holds from this sender: a player endpoint exposes it through the connection-status
            // hook; for a spectator it is taken from the last genuine input packet the network handed over
            let handles: Vec<usize> = if victim_is_spec { (0..np).collect() } else { core.scn.peers.get(from as usize - 1).cloned().unwrap_or_default() };
            let Some(&h0) = handles.first() else { return };
            let l = if victim_is_spec {
                match &base_input {
                    Some(WMsg { body: WBody::Input { start, bytes, .. }, .. }) => match ref_frame_lens(bytes) {
                        Some(lens) if !lens.is_empty() => *start + lens.len() as i32 - 1,
                        _ => { st.no_base_packet += 1; return; }
                    },
                    _ => { st.no_base_packet += 1; return; }
                }
            } else {
                core.nodes[ni].fin.cs.get(h0).map(|c| c.1).unwrap_or(-1)
            };
            let reference = if l < 0 {
                vec![0u8; right]
            } else {
                let mut b = Vec::with_capacity(right);
                for h in &handles {
                    match core.truth.get(*h, l) {
                        Some(x) => b.extend_from_slice(&x.0.to_le_bytes()),
                        None => { st.no_base_packet += 1; return; }
                    }
                }
                b
            };
            let n_new = 1 + r.below(3) as usize;
            let frames: Vec<Vec<u8>> = (0..n_new).map(|_| (0..right).map(|_| r.next() as u8 | 1).collect()).collect();
            let new_bytes = vh::codec_encode(&reference, &frames);
            if let WBody::Input { bytes, start, .. } = &mut m.body {
                *bytes = new_bytes;
                *start = l + 1;
            }
            m.magic = m.magic.wrapping_add(1 + r.below(60_000) as u16);
            desc = format!("well-formed Input packet continuing the stream at frame {} with {n_new} bogus frame(s), foreign magic {:#x}", l + 1, m.magic);
        }
        K_GENUINE_TAIL => {
            // A packet whose first frames are the sender's TRUE inputs for frames the victim has not received yet (so they
            // are not a spoof: accepting them early changes nothing) and whose last frame has the wrong size. The packet
            // "has decoded frames of the wrong size"; whatever the endpoint does with the genuine prefix, the session must
            // keep delivering the true inputs and keep processing the genuine packets that follow.
            let handles: Vec<usize> = if victim_is_spec { (0..np).collect() } else { core.scn.peers.get(from as usize - 1).cloned().unwrap_or_default() };
            let Some(&h0) = handles.first() else { return };
            let l = if victim_is_spec { core.nodes[ni].fin.current_frame.max(-1) } else { core.nodes[ni].fin.cs.get(h0).map(|c| c.1).unwrap_or(-1) };
            if victim_is_spec {
                // a spectator's view of "last received" is not exposed; this class targets player endpoints
                st.no_base_packet += 1;
                return;
            }
            let frame_bytes = |f: i32| -> Option<Vec<u8>> {
                let mut b = Vec::with_capacity(4 * handles.len());
                for h in &handles {
                    b.extend_from_slice(&core.truth.get(*h, f)?.0.to_le_bytes());
                }
                Some(b)
            };
            let reference = if l < 0 { vec![0u8; right] } else { match frame_bytes(l) { Some(b) => b, None => { st.no_base_packet += 1; return; } } };
            let n_new = 1 + r.below(3) as i32;
            let mut frames: Vec<Vec<u8>> = vec![];
            for f in l + 1..=l + n_new {
                match frame_bytes(f) {
                    Some(b) => frames.push(b),
                    None => break,
                }
            }
            if frames.is_empty() {
                // the sender has not produced anything the victim does not have yet
                st.no_base_packet += 1;
                return;
            }
            let n_genuine = frames.len();
            let wrong = r.pick(&[0usize, 1, right.saturating_sub(1), right + 1, 2 * right, 2 * right + 3]);
            frames.push((0..wrong).map(|_| r.next() as u8 | 1).collect());
            let new_bytes = vh::codec_encode(&reference, &frames);
            desc = format!("start frame {} with {n_genuine} genuine new frame(s) followed by a frame of {wrong} bytes (expected {right})", l + 1);
            if let WBody::Input { bytes, start, .. } = &mut m.body {
                *bytes = new_bytes;
                *start = l + 1;
            }
        }
        _ => {
            // payload classes
            let genuine: Vec<u8> = if let WBody::Input { bytes, .. } = &m.body { bytes.clone() } else { vec![] };
            let new_bytes: Vec<u8> = match class {
                K_RANDOM => {
                    let l = r.below(40) as usize;
                    (0..l).map(|_| r.next() as u8).collect()
                }
                K_EXHAUSTIVE => {
                    let idx = inj.exhaustive_from.unwrap_or(0) + st.by_class[K_EXHAUSTIVE as usize];
                    // 0: empty, 1..=256: one byte, then two bytes
                    if idx == 0 {
                        vec![]
                    } else if idx <= 256 {
                        vec![(idx - 1) as u8]
                    } else {
                        let j = (idx - 257) % 65_536;
                        vec![j as u8, (j >> 8) as u8]
                    }
                }
                K_WRONGSIZE => {
                    // a valid encoding whose frames have the wrong size for this endpoint
                    let n = 1 + r.below(3) as usize;
                    let lens = [0usize, 1, right.saturating_sub(1), right + 1, right + 2, 2 * right, 2 * right + 1, 3 * right];
                    let frames: Vec<Vec<u8>> = (0..n)
                        .map(|_| {
                            let l = r.pick(&lens);
                            (0..l).map(|_| r.next() as u8 | 1).collect()
                        })
                        .collect();
                    vh::codec_encode(&[0; 4], &frames)
                }
                K_BOMB => {
                    let run = 1u64 << r.range(20, 62);
                    let mut e = varint((run << 2) | 1 | if r.chance(0.5) { 2 } else { 0 });
                    if r.chance(0.3) {
                        e.extend(varint(r.below(5) << 1));
                    }
                    e
                }
                _ => {
                    // structure-aware mutation of the genuine payload (up to 4 KiB)
                    let mut e = genuine.clone();
                    for _ in 0..1 + r.below(3) {
                        match r.below(6) {
                            0 if !e.is_empty() => {
                                let i = r.below(e.len() as u64) as usize;
                                e[i] ^= 1 << r.below(8);
                            }
                            1 if !e.is_empty() => {
                                let k = r.below(e.len() as u64) as usize;
                                e.truncate(k);
                            }
                            2 => {
                                let i = r.below(e.len() as u64 + 1) as usize;
                                e.insert(i, r.next() as u8);
                            }
                            3 => {
                                let extra = (0..r.below(4096)).map(|_| r.pick(&[0u8, 0xFF, 0x80, 1])).collect::<Vec<u8>>();
                                e.extend(extra);
                                e.truncate(4096);
                            }
                            4 if !e.is_empty() => {
                                let i = r.below(e.len() as u64) as usize;
                                e[i] = r.pick(&[0x80u8, 0xFF, 0x7F, 0x81]);
                            }
                            _ => {
                                let mut f = e.clone();
                                e.append(&mut f);
                            }
                        }
                    }
                    e
                }
            };
            // label with the harness's own view of the encoding: well-formed spoofs (some decoded
            // frame has exactly the size the victim expects) are outside C08 and are not injected
            let spoof_like = match ref_frame_lens(&new_bytes) {
                Some(lens) => lens.iter().any(|l| *l == right),
                None => false,
            };
            if spoof_like && new_bytes != genuine {
                st.skipped_spoof_like += 1;
                return;
            }
            if new_bytes == genuine && !inj.replay_genuine {
                st.skipped_spoof_like += 1;
                return;
            }
            desc = format!("payload of {} bytes: {}", new_bytes.len(), new_bytes.iter().take(24).map(|b| format!("{b:02x}")).collect::<String>());
            if let WBody::Input { bytes, .. } = &mut m.body {
                *bytes = new_bytes;
            }
        }
    }
    st.n += 1;
    st.by_class[class as usize] += 1;
    core.injections.push((t, format!("[{}] {desc}", CLASS_NAMES[class as usize])));
    core.net.borrow_mut().inject(t, from_used, victim_addr, from_w(&m));
}

pub struct Case {
    pub id: String,
    pub scn: Scn,
}

fn base_running(r: &mut Rng, frames: i32) -> Scn {
    let mut s = Scn::base(r.next());
    s.peers = r.pick(&[vec![vec![0], vec![1]], vec![vec![0, 2], vec![1, 3]], vec![vec![0], vec![1, 2]], vec![vec![0], vec![1], vec![2]]]);
    s.pred = r.below(2) as u8;
    s.mp = r.pick(&[0usize, 1, 2, 8]);
    s.delay = r.below(3) as usize;
    s.sparse = r.chance(0.4);
    s.desync = if r.chance(0.4) { Some(3) } else { None };
    s.frames = frames;
    s.sticky = r.pick(&[1u32, 3]);
    s.notify_ms = 20_000;
    s.timeout_ms = 30_000;
    s
}

pub fn cases(ctx: &Ctx) -> Vec<Case> {
    let mut out = vec![];
    let mut r = Rng::new(ctx.seed ^ 0xC08);
    let classes = [K_STATUS, K_NEGSTART, K_RANDOM, K_WRONGSIZE, K_UNKNOWN_ADDR, K_FOREIGN_MAGIC, K_MUTATED, K_BOMB, K_MIXED, K_GENUINE_TAIL, K_FOREIGN_CONT];
    // ---- Running state, clean and lossy links, victim = node 0, forged sender = node 1
    for i in 0..ctx.n(2500, 80_000) {
        let mut rr = r.fork(i as u64);
        let mut s = base_running(&mut rr, 300);
        let class = classes[i % classes.len()];
        s.link = if rr.chance(0.5) { Link::clean(rr.pick(&[0u64, 10, 30])) } else { Link { drop: 0.1, dup: 0.05, base_ms: rr.pick(&[0u64, 20]), jitter_ms: rr.pick(&[0u64, 20]), outages: vec![], faults: vec![], stragglers: vec![] } };
        s.inject = Some(Inject { victim: 0, from_addr: peer_addr(1), p: rr.pick(&[0.1, 0.3, 1.0]), after_ms: 1200, until_ms: 3700, class, exhaustive_from: None, synthesize: false, replay_genuine: false });
        out.push(Case { id: format!("running-{}-{i}", CLASS_NAMES.get(class as usize).unwrap_or(&"mixed")), scn: s });
    }
    // ---- exhaustive payloads of length <= 2 inside a live session (65 793 strings, one per victim tick)
    let per_case = 1100u64;
    let n_exh = if ctx.quick() { 12 } else { 60 };
    for k in 0..n_exh {
        let mut rr = r.fork(0x1100_0000 + k);
        let mut s = base_running(&mut rr, 1150);
        s.mp = rr.pick(&[2usize, 8]);
        s.link = Link::clean(5);
        // quick: a different twelfth of the space for every seed; thorough: the whole space
        let slice = if ctx.quick() { (ctx.seed.wrapping_mul(12).wrapping_add(k)) % 60 } else { k };
        s.inject = Some(Inject { victim: 0, from_addr: peer_addr(1), p: 1.0, after_ms: 1000, until_ms: 100_000, class: K_EXHAUSTIVE, exhaustive_from: Some(slice * per_case), synthesize: false, replay_genuine: false });
        out.push(Case { id: format!("running-exhaustive-{slice}"), scn: s });
    }
    // ---- during the handshake (packets forged from scratch)
    for i in 0..ctx.n(800, 25_000) {
        let mut rr = r.fork(0x2000_0000 + i as u64);
        let mut s = base_running(&mut rr, 200);
        s.link = Link { drop: rr.pick(&[0.0, 0.2]), dup: 0.0, base_ms: rr.pick(&[10u64, 40]), jitter_ms: 0, outages: vec![], faults: vec![], stragglers: vec![] };
        let class = [K_STATUS, K_NEGSTART, K_RANDOM, K_WRONGSIZE, K_UNKNOWN_ADDR, K_BOMB, K_MUTATED, K_FOREIGN_MAGIC][i % 8];
        s.inject = Some(Inject { victim: 0, from_addr: peer_addr(1), p: 1.0, after_ms: 0, until_ms: 700, class, exhaustive_from: None, synthesize: true, replay_genuine: false });
        out.push(Case { id: format!("handshake-{}-{i}", CLASS_NAMES[class as usize]), scn: s });
    }
    // ---- after a disconnect: the dead peer's address keeps "sending" (also exact replays)
    for i in 0..ctx.n(800, 25_000) {
        let mut rr = r.fork(0x3000_0000 + i as u64);
        let mut s = gen_death2(&mut rr, 400);
        s.kill.as_mut().unwrap().at_ms = rr.range(1500, 2200);
        s.notify_ms = 200;
        s.timeout_ms = 400;
        let class = classes[i % classes.len()];
        s.inject = Some(Inject { victim: 0, from_addr: peer_addr(1), p: 0.5, after_ms: 3000, until_ms: 100_000, class, exhaustive_from: None, synthesize: false, replay_genuine: true });
        out.push(Case { id: format!("afterdisc-{}-{i}", CLASS_NAMES.get(class as usize).unwrap_or(&"mixed")), scn: s });
    }
    // ---- towards a spectator (victim = spectator, forged sender = its host)
    for i in 0..ctx.n(800, 25_000) {
        let mut rr = r.fork(0x4000_0000 + i as u64);
        let mut s = base_running(&mut rr, 300);
        s.link = Link::clean(rr.pick(&[0u64, 10]));
        s.specs.push(SpecCfg::new(0));
        let victim = s.peers.len();
        let class = classes[i % classes.len()];
        s.inject = Some(Inject { victim, from_addr: peer_addr(0), p: rr.pick(&[0.2, 1.0]), after_ms: 1200, until_ms: 3700, class, exhaustive_from: None, synthesize: false, replay_genuine: false });
        out.push(Case { id: format!("tospectator-{}-{i}", CLASS_NAMES.get(class as usize).unwrap_or(&"mixed")), scn: s });
    }
    // ---- a spectator whose host died: the host's endpoint lingers in the Disconnected state, and a spectator session has
    // no player bookkeeping that would mask what such an endpoint still lets through (added after round-6 seed C08)
    for i in 0..ctx.n(500, 15_000) {
        let mut rr = r.fork(0x4800_0000 + i as u64);
        let mut s = gen_death2(&mut rr, 400);
        s.kill.as_mut().unwrap().at_ms = rr.range(1500, 2200);
        s.link = Link::clean(rr.pick(&[0u64, 10]));
        s.notify_ms = 200;
        s.timeout_ms = 400;
        let mut sp = SpecCfg::new(1);
        sp.catchup = rr.pick(&[1usize, 2]);
        s.specs.push(sp);
        let victim = s.peers.len();
        let class = [K_FOREIGN_CONT, K_FOREIGN_MAGIC, K_FOREIGN_CONT, K_STATUS, K_NEGSTART, K_MUTATED, K_FOREIGN_CONT, K_WRONGSIZE, K_MIXED][i % 9];
        s.inject = Some(Inject { victim, from_addr: peer_addr(1), p: 0.5, after_ms: 3000, until_ms: 100_000, class, exhaustive_from: None, synthesize: false, replay_genuine: true });
        out.push(Case { id: format!("afterdisc-tospectator-{}-{i}", CLASS_NAMES.get(class as usize).unwrap_or(&"mixed")), scn: s });
    }
    // ---- the real remote is silent: a flood of foreign packets must not move the timeout events
    for i in 0..ctx.n(400, 12_000) {
        let mut rr = r.fork(0x5000_0000 + i as u64);
        let mut s = gen_death2(&mut rr, 400);
        s.link = Link::clean(rr.pick(&[0u64, 10]));
        let class = [K_UNKNOWN_ADDR, K_FOREIGN_MAGIC][i % 2];
        s.inject = Some(Inject { victim: 0, from_addr: peer_addr(1), p: 1.0, after_ms: 1200, until_ms: 100_000, class, exhaustive_from: None, synthesize: false, replay_genuine: false });
        out.push(Case { id: format!("silentflood-{}-{i}", CLASS_NAMES[class as usize]), scn: s });
    }
    // ---- the real UDP socket: garbage datagrams must be dropped by UdpNonBlockingSocket
    for k in 0..ctx.n(6, 40) as u64 {
        let mut s = Scn::base(ctx.seed.wrapping_mul(977).wrapping_add(k));
        s.frames = 0;
        out.push(Case { id: format!("udpsocket-garbage-{k}"), scn: s });
    }
    out
}

/// Garbage, truncated, bit-flipped and length-bomb datagrams sent over loopback to the library's
/// own UdpNonBlockingSocket: receive_all_messages must neither panic nor allocate much, and must
/// keep delivering well-formed messages.
fn run_udp_garbage(c: &Case) -> Outcome {
    use ggrs::NonBlockingSocket;
    let mut out = Outcome::new(json!({"case": c.id, "what": "datagrams sent over loopback UDP to ggrs::UdpNonBlockingSocket: random bytes, truncated / bit-flipped serialised messages, vector-length bombs, oversize datagrams, interleaved with well-formed messages"}));
    out.sig = hash_str(&c.id);
    let mut r = Rng::new(c.scn.seed ^ 0x0D9);
    let mut sock = None;
    let mut port = 0u16;
    for _ in 0..40 {
        port = 20_000 + r.below(30_000) as u16;
        if let Ok(s) = ggrs::UdpNonBlockingSocket::bind_to_port(port) {
            sock = Some(s);
            break;
        }
    }
    let (Some(mut sock), Ok(tx)) = (sock, std::net::UdpSocket::bind("127.0.0.1:0")) else {
        out.inconclusive("could not bind loopback UDP sockets");
        return out;
    };
    let dest = format!("127.0.0.1:{port}");
    let good = |r: &mut Rng| -> Vec<u8> {
        let body = match r.below(5) {
            0 => WBody::KeepAlive,
            1 => WBody::SyncRequest { r: r.next() as u32 },
            2 => WBody::InputAck { ack: r.below(1000) as i32 },
            3 => WBody::QualityReport { adv: 3, ping: 1234 },
            _ => WBody::Input { st: vec![WConn { disconnected: false, last_frame: 7 }; 2], disc: false, start: 5, ack: 4, bytes: (0..r.below(20)).map(|_| r.next() as u8).collect() },
        };
        bincode::serialize(&WMsg { magic: r.next() as u16, body }).unwrap()
    };
    let (mut sent_good, mut got, mut sent_bad) = (0u64, 0u64, 0u64);
    for i in 0..3000u32 {
        let dg: Vec<u8> = match r.below(7) {
            0 => {
                sent_good += 1;
                good(&mut r)
            }
            1 => {
                let l = r.below(120) as usize;
                (0..l).map(|_| r.next() as u8).collect()
            }
            2 => {
                let mut g = good(&mut r);
                let k = r.below(g.len() as u64 + 1) as usize;
                g.truncate(k);
                g
            }
            3 => {
                let mut g = good(&mut r);
                if !g.is_empty() {
                    let i = r.below(g.len() as u64) as usize;
                    g[i] ^= 1 << r.below(8);
                }
                g
            }
            4 => {
                // Input message whose vector length prefix claims 2^60 elements
                let mut g = vec![0x34, 0x12, 2, 0, 0, 0];
                g.extend_from_slice(&(1u64 << r.range(20, 60)).to_le_bytes());
                g.extend((0..r.below(30)).map(|_| r.next() as u8));
                g
            }
            5 => vec![0xFF; 4096],
            _ => (0..5000).map(|_| r.next() as u8).collect(),
        };
        sent_bad += 1;
        let _ = tx.send_to(&dg, &dest);
        if i % 25 == 24 {
            let (res, ast) = crate::alloc::region(true, || guarded(|| sock.receive_all_messages()));
            match res {
                Err(p) => {
                    out.violate(Viol { panic: Some(p.clone()), ..v("UdpNonBlockingSocket::receive_all_messages panicked on a datagram", format!("{} at {}", p.msg, p.loc), 0, 0) });
                    return out;
                }
                Ok(msgs) => got += msgs.len() as u64,
            }
            out.count("max_udp_receive_peak_live_bytes", ast.peak_live.max(0) as u64);
            // serde pre-allocates at most 1 MiB for a vector whose length prefix lies: bounded
            if crate::alloc::is_enabled() && ast.peak_live > (4 << 20) {
                out.violate(v("receiving datagrams allocated more than 4 MiB", format!("peak live growth {} bytes, largest request {}", ast.peak_live, ast.largest), 0, 0));
                return out;
            }
        }
    }
    out.count("udp_datagrams_sent", sent_bad);
    out.count("udp_well_formed_sent", sent_good);
    out.count("udp_messages_delivered", got);
    if got == 0 {
        out.inconclusive("no datagram came through the loopback interface");
        return out;
    }
    out.nontrivial = true;
    out
}

fn v(clause: &str, detail: String, node: Addr, t: u64) -> Viol {
    Viol { prop: "C08", clause: clause.into(), detail, t_ms: t.saturating_sub(T0) / MS, node, panic: None }
}

fn per_addr_events(n: &Node) -> Vec<(u64, Ev)> {
    canon_events(n)
}

pub fn run_case(c: &Case) -> Outcome {
    if c.id.starts_with("udpsocket-") {
        return run_udp_garbage(c);
    }
    let inj = c.scn.inject.clone().unwrap();
    let class = inj.class;
    let after_disc = c.id.starts_with("afterdisc") || c.id.starts_with("silentflood");
    // the oracles that decide "the inputs the session delivers" (not valid once a player is dropped)
    let o = if after_disc { Oracles { c02: true, ..Default::default() } } else { Oracles { c01: true, c03: true, c02: true, c06: true, ..Default::default() } };
    let mut st = InjState { n: 0, by_class: [0; 12], skipped_spoof_like: 0, no_base_packet: 0 };
    let w = run_scn_hook(&c.scn, o, false, &mut |core, ni, t| inject_hook(core, ni, t, &mut st));
    let mut out = Outcome::new(world_desc(&w));
    absorb_obs(&mut out, &w);
    out.sig = mix(world_sig(&w), hash_str(&c.id));
    out.count("packets_injected", st.n);
    for (k, n) in st.by_class.iter().enumerate() {
        if *n > 0 {
            out.count(&format!("injected_{}", CLASS_NAMES[k]), *n);
        }
    }
    out.count("spoof_like_payloads_not_injected", st.skipped_spoof_like);
    let delivered = w.net.borrow().stats.forged_delivered;
    out.count("forged_packets_delivered_to_the_victim", delivered);
    out.count("max_peak_live_bytes_in_one_call", w.alloc_peak_max.max(0) as u64);
    out.count("max_single_allocation_request", w.alloc_largest_max as u64);
    let last_inj = w.injections.iter().rev().take(3).map(|(t, d)| format!("t={}ms {d}", (t - T0) / MS)).collect::<Vec<_>>();
    // (a) no panic / no inputs changed / request contract intact
    for vv in &w.viols {
        let mut v2 = vv.clone();
        v2.prop = if vv.prop == "PANIC" { "PANIC" } else { "C08" };
        v2.clause = match vv.prop {
            "PANIC" => format!("{} while handling injected packets", vv.clause),
            "C01" | "C03" | "C06" => format!("an injected packet changed the inputs the session delivers ({} oracle: {})", vv.prop, vv.clause),
            _ => format!("{} oracle: {}", vv.prop, vv.clause),
        };
        v2.detail = format!("{} [node {} t={}ms; last injections: {:?}]", vv.detail, vv.node, vv.t_ms, last_inj);
        out.violate(v2);
    }
    if !w.viols.is_empty() {
        out.witness = world_witness(&w);
        return out;
    }
    if crate::alloc::is_enabled() && w.alloc_peak_max > crate::props::c14::alloc_bound(4096) {
        out.violate(v("handling a packet allocated more than a small multiple of a legitimate packet", format!("peak live growth {} bytes in one call, largest single request {} (bound {})", w.alloc_peak_max, w.alloc_largest_max, crate::props::c14::alloc_bound(4096)), 0, w.end_t));
        return out;
    }
    // (b) differential against the same scenario without the injection
    let mut s0 = c.scn.clone();
    s0.inject = None;
    let base = run_scn(&s0, Oracles::default());
    if !base.viols.is_empty() {
        out.inconclusive("the run without injection stopped early");
        return out;
    }
    // a foreign sync request during the handshake is answered (the peer's magic is not known yet): packet timing shifts
    let pre = class != K_MIXED && preprocessing_class(class) && !(class == K_FOREIGN_MAGIC && c.id.starts_with("handshake"));
    for (a, b) in w.nodes.iter().zip(base.nodes.iter()) {
        // connection state and session state
        if a.fin.running != b.fin.running || a.fin.cs.iter().map(|c| c.0).collect::<Vec<_>>() != b.fin.cs.iter().map(|c| c.0).collect::<Vec<_>>() {
            out.violate(v("an injected packet changed the connection state", format!("node {}: running {} vs {}, disconnected flags {:?} vs {:?}; last injections {:?}", a.addr, a.fin.running, b.fin.running, a.fin.cs, b.fin.cs, last_inj), a.addr, w.end_t));
            break;
        }
        // lifecycle and desync events; wait recommendations are derived from packet timing
        let ev_kinds = |n: &Node| per_addr_events(n).iter().filter(|(_, e)| !matches!(e, Ev::Wait { .. })).map(|(_, e)| format!("{e:?}")).collect::<Vec<_>>();
        if pre || after_disc {
            out.count("raw_trace_comparisons", 1);
            let first_div = a.game.call_hashes.iter().zip(b.game.call_hashes.iter()).position(|(x, y)| x != y);
            if first_div.is_some() || a.game.call_hashes.len() != b.game.call_hashes.len() || per_addr_events(a) != per_addr_events(b) || a.errs != b.errs || a.game.st != b.game.st {
                out.violate(v(
                    "a packet that must be rejected before processing changed the session's behaviour",
                    format!("node {}: first differing request list {:?} (lists {} vs {}), events equal {}, errors {:?} vs {:?}, final state equal {}; last injections {:?}", a.addr, first_div, a.game.call_hashes.len(), b.game.call_hashes.len(), per_addr_events(a) == per_addr_events(b), a.errs, b.errs, a.game.st == b.game.st, last_inj),
                    a.addr,
                    w.end_t,
                ));
                break;
            }
        } else {
            out.count("semantic_comparisons", 1);
            // payload classes may legitimately shift packet timing; inputs, events and progress must not change
            if ev_kinds(a) != ev_kinds(b) {
                out.violate(v("an injected payload changed the event sequence", format!("node {}: {:?} vs {:?}; last injections {:?}", a.addr, ev_kinds(a), ev_kinds(b), last_inj), a.addr, w.end_t));
                break;
            }
            // a run that is merely slower (window 1 on a lossy link) may hit the virtual time cap a few
            // frames short of the target: only a session that stopped advancing is a violation
            let still_advancing = w.frames_between(a.idx, w.end_t.saturating_sub(3000 * MS), w.end_t) >= 3;
            if b.reached_target_at.is_some() && a.reached_target_at.is_none() && !a.is_spec && still_advancing {
                out.count("runs_slower_than_their_twin_but_advancing", 1);
            }
            if b.reached_target_at.is_some() && a.reached_target_at.is_none() && !a.is_spec && !still_advancing {
                out.violate(v("valid traffic is no longer processed after the injected packets", format!("node {} stopped at frame {} (run without injection reached {}); last injections {:?}", a.addr, a.game.frame(), b.game.frame(), last_inj), a.addr, w.end_t));
                break;
            }
            // (final states are not compared: the last frames before the target may still hold
            // predictions whose correcting rollback belongs to a call that is never made; the
            // C01/C03 oracles have checked every confirmed frame against the truth)
        }
    }
    // handshake family: the handshake still completes
    if c.id.starts_with("handshake") && matches!(out.verdict, Verdict::Held) {
        if w.nodes.iter().any(|n| n.running_at.is_none()) && base.nodes.iter().all(|n| n.running_at.is_some()) {
            out.violate(v("the handshake did not complete after packets were injected into it", format!("running_at {:?}", w.nodes.iter().map(|n| n.running_at.map(|t| (t - T0) / MS)).collect::<Vec<_>>()), 0, w.end_t));
        }
    }
    out.nontrivial = st.n > 0 && (delivered > 0 || class == K_UNKNOWN_ADDR);
    if !matches!(out.verdict, Verdict::Held) {
        out.witness = world_witness(&w);
    }
    out
}

// ------------------------------------------------------------------------------------------
// worker / parent plumbing: injection campaigns run in child processes (counting allocator on,
// a refused allocation or any other abort is attributed to the case announced last)
// ------------------------------------------------------------------------------------------
pub fn worker(a: &Value) {
    let ctx = Ctx { prop: "C08".into(), tier: a["tier"].as_str().unwrap().to_string(), seed: a["seed"].as_u64().unwrap(), only_case: None, threads: 1, scale: a["scale"].as_f64().unwrap_or(1.0), verbose: false, no_evidence: true, no_stop: true };
    let cs = cases(&ctx);
    let (from, to) = (a["from"].as_u64().unwrap() as usize, a["to"].as_u64().unwrap() as usize);
    for (i, c) in cs.iter().enumerate().take(to).skip(from) {
        crate::alloc::CURRENT_ITEM.store(i as u64, std::sync::atomic::Ordering::Relaxed);
        println!("{}", json!({"start": i, "case": c.id}));
        let o = match guarded(|| run_case(c)) {
            Ok(o) => o,
            Err(p) => {
                let mut o = Outcome::new(json!({"case": c.id}));
                o.inconclusive(&format!("harness error: {} at {}", p.msg, p.loc));
                o
            }
        };
        println!("{}", outcome_to_json(&c.id, &o));
    }
    println!("{}", json!({"done": true}));
}

struct Chunk {
    from: usize,
    to: usize,
}

pub fn check(ctx: &Ctx) -> i32 {
    let started = Instant::now();
    let all = cases(ctx);
    let n = all.len();
    let mut res: Vec<CaseResult> = vec![];
    if let Some(only) = &ctx.only_case {
        // replay of a single case: in-process
        for c in all.iter().filter(|c| c.id == *only) {
            res.push(CaseResult { id: c.id.clone(), out: run_case(c) });
        }
    } else {
        let chunk = 40;
        let chunks: Vec<Chunk> = (0..n).step_by(chunk).map(|f| Chunk { from: f, to: (f + chunk).min(n) }).collect();
        let ids: Vec<String> = all.iter().map(|c| c.id.clone()).collect();
        let parts = par_run(ctx, &chunks, &|c: &Chunk| format!("chunk-{}-{}", c.from, c.to), &|c: &Chunk| {
            // returns a carrier outcome whose sample holds the per-case outcomes
            let mut carrier = Outcome::new(Value::Null);
            carrier.keep_sample = true;
            let mut collected: Vec<Value> = vec![];
            let mut from = c.from;
            let mut restarts = 0;
            while from < c.to {
                let r = run_child("c08world", &json!({"tier": ctx.tier, "seed": ctx.seed, "scale": ctx.scale, "from": from, "to": c.to}), Duration::from_secs(900));
                let mut last_started: Option<usize> = None;
                let mut finished: std::collections::HashSet<usize> = Default::default();
                for l in &r.lines {
                    if let Some(i) = l["start"].as_u64() {
                        last_started = Some(i as usize);
                    } else if l.get("verdict").is_some() {
                        if let Some(i) = last_started {
                            finished.insert(i);
                        }
                        collected.push(l.clone());
                    }
                }
                if r.exit == ExitKind::Ok && r.lines.iter().any(|l| l["done"] == json!(true)) {
                    break;
                }
                // the child died: attribute it to the case announced last
                let culprit = last_started.filter(|i| !finished.contains(i)).unwrap_or(from);
                let marker = alloc_cap_marker(&r.stderr);
                let mut o = Outcome::new(json!({"case": ids[culprit]}));
                match (&r.exit, marker) {
                    (ExitKind::Timeout, _) => o.inconclusive("worker hit the wall-clock watchdog"),
                    (_, Some((size, _))) => o.violate(v("handling an injected packet requested an allocation above the hard cap (process aborted)", format!("case {}: a single allocation of {size} bytes was requested", ids[culprit]), 0, 0)),
                    (e, None) => o.violate(v("the process died while handling injected packets", format!("case {}: exit {e:?}; stderr tail: {}", ids[culprit], r.stderr), 0, 0)),
                }
                collected.push(outcome_to_json(&ids[culprit], &o));
                from = culprit + 1;
                restarts += 1;
                if restarts > 45 {
                    break;
                }
            }
            carrier.sample = Value::Array(collected);
            carrier
        });
        for p in parts {
            if let Some(arr) = p.out.sample.as_array() {
                for l in arr {
                    if let Some(cr) = outcome_from_json(l, "C08") {
                        res.push(cr);
                    }
                }
            } else if let Verdict::Inconclusive(w) = &p.out.verdict {
                let mut o = Outcome::new(json!({"chunk": p.id}));
                o.inconclusive(w);
                res.push(CaseResult { id: p.id, out: o });
            }
        }
    }
    let mut extra = Map::new();
    extra.insert("exhaustive_subspace".into(), json!(if ctx.quick() { "payload = byte strings of length <= 2 inside a live session: a seed-dependent fifth (12 of 60 slices of 1100 strings) per quick run" } else { "payload = every byte string of length <= 2 (65 793) inside a live session" }));
    extra.insert("classes".into(), json!(CLASS_NAMES));
    let meta = Meta {
        level: "fault_enumeration",
        rule: "forged packets are built by mutating a copy of the last genuine packet already delivered on the victim's link (so that ack and gossip fields are stale and idempotent) and are put on the wire at the victim's ticks: wrong number of connection statuses (0, n-1, n+1, n+1000; optionally with hostile flags and an ack ahead of the truth), negative start frame (optionally together with disconnect_requested, a 'disconnected' status entry or an ack ahead: the packet must be dropped as a whole), payloads that are random bytes / exhaustive byte strings of length <= 2 / structure-aware mutations of the genuine payload up to 4 KiB / run-length bombs / valid encodings of frames of the wrong size, any packet type from an unknown address, any packet type with a foreign magic (stale copies of genuine packets, and - class foreign-magic-stream-continuation - completely well-formed Input packets that continue the sender's stream with bogus frames, so that nothing but the magic number is wrong with them). Payloads that the harness's own decoder labels as well-formed spoofs (some frame has exactly the expected size) are not injected (no authentication: outside the property). Protocol states: Running on clean and lossy links (2-3 peers, 1-2 players per peer, windows 0/1/2/8), during the handshake (forged from scratch), after the sender was dropped (incl. exact replays), towards a spectator, towards a spectator whose host died and was dropped (the host's endpoint lingers in the Disconnected state), and a flood of foreign packets while the real remote is silent; plus garbage/truncated/bit-flipped/length-bomb/oversize datagrams sent over loopback to the library's own UdpNonBlockingSocket (no panic, < 4 MiB allocated per receive call, well-formed messages still delivered). Every campaign runs in a child process under the counting allocator. Verdict: no panic/abort/refused allocation, peak live growth per call within the codec bound; C01/C03/C06 oracles keep holding; against the same scenario without injection: classes rejected before processing must leave request traces, events (with timestamps, per address), errors and states identical; payload classes (which legitimately refresh a resend timer, i.e. shift packet timing) must leave lifecycle/desync events, connection state and progress to the frame target identical, with floods on live links ending 2.5 s after they started so that 'valid traffic continues to be processed afterwards' is judged after the flood; handshakes still complete. Non-trivial: at least one forged packet was delivered to the victim's session. Distinct: case + trace hash.".into(),
        assumptions: {
            let mut a = std_assumptions();
            a.push("UdpNonBlockingSocket is not in the simulated path; it is exercised separately with garbage datagrams over loopback".into());
            a
        },
        floor_nontrivial: if ctx.quick() { 400 } else { 10_000 },
        exhaustive: None,
        extra,
    };
    conclude(ctx, meta, res, started).exit
}
