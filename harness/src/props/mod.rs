pub mod c01;
