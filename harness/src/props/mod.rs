pub mod c01;
pub mod c02;
pub mod c03;
pub mod c04;
pub mod c13;
pub mod c06;
pub mod c05;
