//! C13 — SyncTestSession flags exactly the games that are not deterministic.
use crate::base::*;
use crate::fw::*;
use crate::game::*;
use crate::world::Viol;
use ggrs::*;
use serde_json::{json, Map};
use std::time::Instant;

type C = Cfg<PredictRepeatLast>;

#[derive(Clone, Debug)]
pub struct Case {
    pub np: usize,
    pub mp: usize,
    pub cd: usize,
    pub delay: usize,
    pub sparse: bool,
    pub frames: i32,
    pub xs: Vec<i32>,
    pub seed: u64,
}
impl Case {
    pub fn id(&self) -> String {
        format!("np{}-mp{}-cd{}-d{}-sp{}", self.np, self.mp, self.cd, self.delay, self.sparse as u8)
    }
}

fn viol(clause: &str, detail: String) -> Viol {
    Viol { prop: "C13", clause: clause.into(), detail, t_ms: 0, node: 0, panic: None }
}

fn builder(c: &Case) -> SessionBuilder<C> {
    SessionBuilder::<C>::new().with_num_players(c.np).unwrap().with_max_prediction_window(c.mp).with_check_distance(c.cd).with_input_delay(c.delay).with_sparse_saving_mode(c.sparse)
}

/// Drives one SyncTest session. `nondet` = (X, k): the k-th simulation of frame X is perturbed.
/// Returns (calls made, Some((call index, mismatched frames)) if a mismatch was reported, the call in which the
/// deviating (k-th) simulation of X happened).
fn drive(c: &Case, nondet: Option<(i32, u32)>, prop: &'static str, out: &mut Outcome) -> Option<(i32, Option<(i32, Vec<i32>)>, Option<i32>)> {
    drive_mode(c, nondet, prop, out, 0, false)
}

/// `cks`: 0 = every save carries a checksum, 1 = no save does, n >= 2 = only frames divisible by n do.
/// `retry`: every few calls the application first submits DECOY values for all players but the last and calls
/// advance_frame (which must fail with InvalidRequest and change nothing), then submits the real values for everybody and
/// calls it again: the session must use the values submitted last (round-7 seed C13).
fn drive_mode(c: &Case, nondet: Option<(i32, u32)>, prop: &'static str, out: &mut Outcome, cks: i32, retry: bool) -> Option<(i32, Option<(i32, Vec<i32>)>, Option<i32>)> {
    let mut sess = match guarded(|| builder(c).start_synctest_session()) {
        Ok(Ok(s)) => s,
        Ok(Err(e)) => {
            out.violate(viol("valid synctest configuration rejected", format!("{e:?}")));
            return None;
        }
        Err(p) => {
            out.violate(Viol { panic: Some(p.clone()), ..viol("panic in start_synctest_session", format!("{} at {}", p.msg, p.loc)) });
            return None;
        }
    };
    let mut g = Game::new();
    g.nondet = nondet;
    match cks {
        0 => {}
        1 => g.save_checksum = false,
        n => g.checksum_mod = Some(n),
    }
    let mut first_sim_call: Option<i32> = None;
    for call in 0..c.frames {
        let cf = sess.current_frame();
        if retry && c.np >= 2 && call % 5 == 3 {
            for h in 0..c.np - 1 {
                let _ = sess.add_local_input(h, input_value(c.seed ^ 0xDEC0, h, cf, 1));
            }
            match guarded(|| sess.advance_frame()) {
                Ok(Err(GgrsError::InvalidRequest { .. })) => out.count("synctest_rejected_calls_with_a_missing_input", 1),
                Ok(other) => {
                    out.violate(viol("advance_frame with a missing input was not rejected with InvalidRequest", format!("call {call}: {:?}", other.map(|r| r.len()))));
                    return None;
                }
                Err(p) => {
                    out.violate(Viol { prop, panic: Some(p.clone()), ..viol("panic in SyncTestSession::advance_frame", format!("{} at {}", p.msg, p.loc)) });
                    return None;
                }
            }
            if sess.current_frame() != cf {
                out.violate(viol("a rejected advance_frame moved the session", format!("current_frame() {} -> {}", cf, sess.current_frame())));
                return None;
            }
        }
        for h in 0..c.np {
            if let Err(e) = sess.add_local_input(h, input_value(c.seed, h, cf, 1)) {
                out.violate(viol("add_local_input rejected for a valid handle", format!("{e:?}")));
                return None;
            }
        }
        let pre = g.frame();
        match guarded(|| sess.advance_frame()) {
            Err(p) => {
                out.violate(Viol { prop, panic: Some(p.clone()), ..viol("panic in SyncTestSession::advance_frame", format!("{} at {}", p.msg, p.loc)) });
                return None;
            }
            Ok(Err(GgrsError::MismatchedChecksum { current_frame: _, mismatched_frames })) => {
                return Some((call, Some((call, mismatched_frames)), first_sim_call));
            }
            Ok(Err(e)) => {
                out.violate(viol("unexpected error from SyncTestSession::advance_frame", format!("{e:?}")));
                return None;
            }
            Ok(Ok(reqs)) => {
                // rollback-mode clause "frame 0 saved before its first simulation" applies when saving is active
                if let Err(e) = g.handle(reqs, c.cd > 0) {
                    out.violate(Viol { prop, ..viol("synctest request list not executable", format!("{e}; list [{}]", g.last_call_str())) });
                    return None;
                }
                out.count("synctest_lists", 1);
                if g.frame() != sess.current_frame() || g.frame() != pre + 1 {
                    out.violate(Viol { prop, ..viol("synctest frame bookkeeping", format!("game {} current_frame() {} before {pre}", g.frame(), sess.current_frame())) });
                    return None;
                }
                for f in g.simulated_in_last_call().collect::<Vec<_>>() {
                    if let (Some((x, k)), None) = (nondet, first_sim_call) {
                        if f == x && g.sims(x) >= k {
                            first_sim_call = Some(call);
                        }
                    }
                    let row = g.row(f).unwrap();
                    out.count("synctest_inputs_checked", row.len() as u64);
                    for (h, (v, st)) in row.iter().enumerate() {
                        let uf = f - c.delay as i32;
                        let want = if uf < 0 { Inp::default() } else { input_value(c.seed, h, uf, 1) };
                        if *v != want || *st != InputStatus::Confirmed {
                            out.violate(viol("synctest input not Confirmed / not the delayed submitted value", format!("frame {f} player {h}: {v:?} {st:?}, expected {want:?} Confirmed")));
                            return None;
                        }
                    }
                }
                // comparisons performed: frames in the window per call
                if c.cd > 0 && cf > c.cd as i32 {
                    out.count("checksum_comparisons", c.cd as u64 + 1);
                }
            }
        }
    }
    Some((c.frames, None, first_sim_call))
}

pub fn run_case(c: &Case) -> Outcome {
    let mut out = Outcome::new(json!({"players": c.np, "window": c.mp, "check_distance": c.cd, "delay": c.delay, "sparse": c.sparse, "frames": c.frames, "nondeterminism_placements": c.xs}));
    out.sig = hash_str(&c.id());
    let valid = c.cd < c.mp && !c.sparse;
    if !valid {
        match guarded(|| builder(c).start_synctest_session().map(|_| ())) {
            Ok(Err(GgrsError::InvalidRequest { .. })) => {
                out.count("invalid_configurations_rejected", 1);
                out.nontrivial = true;
            }
            Ok(Err(e)) => out.violate(viol("invalid configuration rejected with the wrong error", format!("{e:?}"))),
            Ok(Ok(())) => out.violate(viol("invalid synctest configuration accepted", format!("check_distance {} window {} sparse {}", c.cd, c.mp, c.sparse))),
            Err(p) => out.violate(Viol { panic: Some(p.clone()), ..viol("panic in start_synctest_session", format!("{} at {}", p.msg, p.loc)) }),
        }
        return out;
    }
    out.count("valid_configurations_run", 1);
    // deterministic game: never a mismatch
    if let Some((_, Some((call, frames)), _)) = drive(c, None, "C13", &mut out) {
        out.violate(viol("MismatchedChecksum for a deterministic game", format!("at call {call}, frames {frames:?}")));
        return out;
    }
    if !matches!(out.verdict, Verdict::Held) {
        return out;
    }
    // ... also when it saves without checksums, or with a checksum on some frames only (both are legitimate uses of
    // GameStateCell::save; there is then nothing to compare, never a mismatch)
    for cks in [1, 2, 3] {
        out.count("deterministic_runs_with_partial_or_no_checksums", 1);
        if let Some((_, Some((call, frames)), _)) = drive_mode(c, None, "C13", &mut out, cks, false) {
            out.violate(viol("MismatchedChecksum for a deterministic game", format!("game saving {}: at call {call}, frames {frames:?}", if cks == 1 { "without checksums".to_string() } else { format!("with a checksum on every {cks}th frame only") })));
            return out;
        }
        if !matches!(out.verdict, Verdict::Held) {
            return out;
        }
    }
    // ... and when the application retries after a rejected call with different values (the values submitted last count)
    if c.np >= 2 {
        out.count("deterministic_runs_with_rejected_calls_and_retries", 1);
        if let Some((_, Some((call, frames)), _)) = drive_mode(c, None, "C13", &mut out, 0, true) {
            out.violate(viol("MismatchedChecksum for a deterministic game", format!("run with rejected calls and retries: at call {call}, frames {frames:?}")));
            return out;
        }
        if !matches!(out.verdict, Verdict::Held) {
            return out;
        }
    }
    if c.cd >= 2 {
        for &x in &c.xs {
            // frame X is simulated min(check_distance, X)+1 times (rollbacks start at call check_distance+1 and never go
            // below frame 1): the deviation may sit on the first simulation or on any re-simulation
            for k in 1..=(c.cd.min(x as usize) as u32 + 1) {
                out.count("nondeterministic_runs", 1);
                let Some((_, det, first)) = drive(c, Some((x, k)), "C13", &mut out) else { return out };
                let Some(dev_call) = first else {
                    out.inconclusive("the deviating simulation never happened");
                    return out;
                };
                if x < c.cd as i32 {
                    out.count("deviations_before_the_first_rollback", 1);
                }
                match det {
                    None if k == 1 && x >= c.cd as i32 => {
                        // history class of the open finding F8: the deviating simulation is the FIRST one of a frame that is
                        // simulated once rollbacks have begun; its result is rolled back over by the next call before it is
                        // ever saved, so no checksum of it exists. Recorded, and the remaining placements are still explored.
                        out.violate(viol("non-determinism not reported", format!("the first simulation of frame {x} differs from all its re-simulations, no MismatchedChecksum in {} calls [first simulation of a frame at or after the first rollback (frame >= check distance {}): its result is never saved]", c.frames, c.cd)));
                        continue;
                    }
                    None => {
                        out.violate(viol("non-determinism not reported", format!("the {k}-th simulation of frame {x} differs, no MismatchedChecksum in {} calls", c.frames)));
                        return out;
                    }
                    Some((call, frames)) => {
                        let lag = call - dev_call;
                        out.count(&format!("detection_lag_calls_after_deviation_{lag:02}"), 1);
                        if lag > c.cd as i32 + 2 {
                            out.violate(viol("non-determinism reported too late", format!("k={k} X={x}: reported {lag} calls after the deviating simulation (check distance {})", c.cd)));
                            return out;
                        }
                        let first_named = frames.iter().min().copied().unwrap_or(-1);
                        if first_named != x + 1 {
                            out.violate(viol("wrong first affected frame named", format!("k={k} X={x}: mismatched_frames {frames:?}, first affected frame is {}", x + 1)));
                            return out;
                        }
                    }
                }
            }
        }
    }
    out.nontrivial = c.cd >= 2 && c.frames >= 100;
    out
}

fn grid(ctx: &Ctx, for_c02: bool) -> Vec<Case> {
    let mut v = vec![];
    let delays: Vec<usize> = if ctx.quick() { vec![0, 1, 3, 8] } else { (0..=8).collect() };
    let mut r = Rng::new(ctx.seed ^ 0xC13);
    for np in 1..=4usize {
        for mp in 0..=12usize {
            for cd in 0..=13usize {
                for &delay in &delays {
                    for sparse in [false, true] {
                        let valid = cd < mp && !sparse;
                        if for_c02 && (!valid || (ctx.quick() && (np + mp + cd + delay) % 4 != 0)) {
                            continue;
                        }
                        let xs: Vec<i32> = if for_c02 {
                            vec![]
                        } else if ctx.quick() {
                            { let mut v: Vec<i32> = (1..=cd as i32 + 1).collect(); for _ in 0..6 { v.push(cd as i32 + 2 + r.below(56) as i32); } v }
                        } else {
                            (1..=60).collect()
                        };
                        v.push(Case { np, mp, cd, delay, sparse, frames: if ctx.quick() { 150 } else { 300 }, xs, seed: r.next() });
                    }
                }
            }
        }
    }
    // far corners of the configuration space: windows and input delays close to the 128-slot input ring, check distances
    // up to 50, histories long enough to wrap the ring twice. Only what a session must hold (delay + check distance + 2
    // inputs per player) stays inside the ring; the window itself may exceed it.
    for (np, mp, cd, delay) in [(1usize, 130usize, 2usize, 0usize), (2, 8, 2, 119), (2, 64, 3, 63), (3, 127, 5, 0), (1, 12, 2, 115), (2, 32, 31, 10), (4, 100, 50, 20), (2, 20, 19, 100), (1, 200, 1, 0), (2, 126, 0, 60)] {
        if for_c02 && ctx.quick() && (np + mp) % 2 != 0 {
            continue;
        }
        let xs: Vec<i32> = if for_c02 { vec![] } else { vec![1, cd as i32 + 1, 130 + r.below(20) as i32, 256 + r.below(20) as i32] };
        // (400 calls: the last re-simulation of the latest placement, 275 + check distance 50, and its report fit in)
        v.push(Case { np, mp, cd, delay, sparse: false, frames: 400, xs, seed: r.next() });
    }
    v
}

/// SyncTest request lists under C02's contract (run as part of the C02 check).
pub fn contract_cases_for_c02(ctx: &Ctx) -> Vec<CaseResult> {
    if ctx.only_case.is_some() {
        return vec![];
    }
    let cs = grid(ctx, true);
    par_run(ctx, &cs, &|c: &Case| format!("synctest-{}", c.id()), &|c: &Case| {
        let mut out = Outcome::new(json!({"synctest": c.id()}));
        out.sig = hash_str(&format!("st{}", c.id()));
        let _ = drive(c, None, "C02", &mut out);
        // only C02-relevant verdicts
        if let Verdict::Violated(vs) = &out.verdict {
            if !vs.iter().any(|v| v.prop == "C02") {
                out.verdict = Verdict::Inconclusive("synctest run stopped by a C13 clause".into());
            }
        }
        out.nontrivial = c.cd >= 2;
        out
    })
}

pub fn check(ctx: &Ctx) -> i32 {
    let started = Instant::now();
    let cs: Vec<Case> = grid(ctx, false).into_iter().filter(|c| ctx.only_case.as_ref().is_none_or(|o| *o == c.id())).collect();
    let res = par_run(ctx, &cs, &|c: &Case| c.id(), &run_case);
    let mut extra = Map::new();
    extra.insert("grid".into(), json!("players 1..=4 x window 0..=12 x check_distance 0..=13 x delay (quick {0,1,3,8}, thorough 0..=8) x sparse flag; every point is visited; plus 10 far-corner configurations (windows up to 200, delays up to 119, check distances up to 50) run for 400 frames"));
    let meta = Meta {
        level: "exploration",
        rule: "exhaustive grid of builder configurations: invalid ones (check_distance >= window, sparse saving) must be rejected with InvalidRequest, valid ones are run for 150 (quick) / 300 (thorough) frames with unique random inputs on a deterministic game — saving with a checksum on every frame, on no frame, on every 2nd and on every 3rd frame, and (two or more players) with every fifth call preceded by a rejected call that submitted decoy values for all players but the last — (no MismatchedChecksum, request contract, every input Confirmed and equal to the submission delayed as configured) and, for check_distance >= 2, with a game whose k-th simulation (every k in 1..=min(check_distance, X)+1, i.e. the first simulation or any re-simulation) of frame X is perturbed, X over a placement set (quick: every X in 1..=check_distance+1, i.e. including the frames simulated before the first rollback, plus 6 random placements up to 60; thorough: every X in 1..=60): MismatchedChecksum must follow within check_distance+2 calls of the deviating simulation and name X+1 as first affected frame. Non-trivial: rejected invalid configuration, or valid configuration with check_distance >= 2 (comparison active) and >= 100 frames. Distinct: grid point.".into(),
        assumptions: vec!["harness game is deterministic unless told otherwise".into(), "held on the executions produced, not verified".into()],
        floor_nontrivial: 500,
        exhaustive: Some(true),
        extra,
    };
    conclude(ctx, meta, res, started).exit
}
