//! C07 — a peer drop is detected on time and the survivor's timeline stays coherent.
use crate::base::*;
use crate::fw::*;
use crate::gen::*;
use crate::net::*;
use crate::scn::*;
use crate::world::*;
use ggrs::InputStatus;
use serde_json::Map;
use std::time::Instant;

/// A spectator of the surviving host. Half of them lag (slow ticks or a pause around the drop) and catch up several frames
/// per call, so that the dropped player's last frame falls INSIDE a multi-frame catch-up step (round-6 seed C07).
fn spec_cfg(rr: &mut Rng, drop_at_ms: u64) -> SpecCfg {
    let mut sp = SpecCfg::new(0);
    sp.catchup = rr.pick(&[1usize, 2, 3, 5, 8]);
    sp.max_behind = rr.pick(&[1usize, 2, 5, 10]);
    match rr.below(4) {
        0 => sp.period_factor = rr.pick(&[1.5, 2.0, 3.0]),
        1 => {
            let a = drop_at_ms.saturating_sub(rr.range(100, 700));
            sp.pauses.push((a, a + rr.range(150, 800)));
        }
        _ => {}
    }
    sp
}

pub fn cases(ctx: &Ctx) -> Vec<WCase> {
    let mut out = vec![];
    let mut r = Rng::new(ctx.seed ^ 0xC07);
    for i in 0..ctx.n(10_000, 500_000) {
        let mut rr = r.fork(i as u64);
        let mut s = gen_death2(&mut rr, 500);
        if rr.chance(0.4) {
            let sp = spec_cfg(&mut rr, s.kill.as_ref().unwrap().at_ms);
            s.specs.push(sp);
            // half of the spectated ones: straggling copies of host->spectator packets sent before the drop arrive after it
            if rr.chance(0.5) {
                let k = s.kill.clone().unwrap();
                let mut l = s.link.clone();
                l.stragglers.push(Straggler { from_ms: k.at_ms.saturating_sub(rr.range(50, 400)), to_ms: k.at_ms + s.timeout_ms, every: rr.range(1, 3), delay_ms: s.timeout_ms + rr.range(20, 400), hold: false });
                s.link_overrides.push((peer_addr(0), spec_addr(0), l));
            }
        }
        s.settle_ms = 1500;
        out.push(wcase(format!("kill-{i}"), s));
    }
    for i in 0..ctx.n(3000, 150_000) {
        let mut rr = r.fork(0x2000_0000 + i as u64);
        let mut s = gen_death2(&mut rr, 500);
        s.kill = None;
        s.notify_ms = 20_000;
        s.timeout_ms = 30_000;
        let h = s.peers[1][0];
        let at = rr.range(1500, 3500);
        s.actions.push(Action { node: 0, when: Trigger::AtMs(at), act: Act::Disconnect { h } });
        // the repeated call must be rejected
        s.actions.push(Action { node: 0, when: Trigger::AtMs(at + rr.range(1, 400)), act: Act::Disconnect { h } });
        if rr.chance(0.4) {
            let sp = spec_cfg(&mut rr, at);
            s.specs.push(sp);
        }
        s.settle_ms = 1000;
        // extra bare polls between the advancing ticks: the call may then follow a poll that has just delivered inputs
        // contradicting a prediction, with no advance_frame in between
        let mut c = NodeCfg::default();
        c.polls_per_tick = rr.pick(&[1u64, 2, 4, 8]);
        s.nodes = vec![c, NodeCfg::default()];
        out.push(wcase(format!("api-{i}"), s));
    }
    // a paused game: the survivor only polls from shortly before the death until after the timeout, so the dying peer's
    // last packets AND the timeout are handled by bare polls, with mispredictions still uncorrected; then it plays on
    for i in 0..ctx.n(3000, 150_000) {
        let mut rr = r.fork(0x3000_0000 + i as u64);
        let mut s = gen_death2(&mut rr, 500);
        let at = s.kill.as_ref().unwrap().at_ms;
        let mut c = NodeCfg::default();
        c.polls_per_tick = rr.pick(&[1u64, 2, 4]);
        c.poll_only.push((at.saturating_sub(rr.range(0, 150)), at + s.timeout_ms + rr.range(60, 600)));
        s.nodes = vec![c, NodeCfg::default()];
        if rr.chance(0.4) {
            let sp = spec_cfg(&mut rr, at);
            s.specs.push(sp);
        }
        s.settle_ms = 1500;
        out.push(wcase(format!("paused-{i}"), s));
    }
    // dropped before its first input arrives: every Input packet of the remote is lost from the start (acks, quality
    // reports and keep-alives still flow until it dies or is dropped by the application), so the survivor has simulated
    // up to a window of frames with predictions only and the dropped player's last frame is "none"
    for i in 0..ctx.n(2000, 100_000) {
        let mut rr = r.fork(0x4000_0000 + i as u64);
        let mut s = gen_death2(&mut rr, 500);
        let mut l = s.link.clone();
        l.outages.push(Outage { from_ms: 0, to_ms: 1_000_000, kinds: 1 << K_INPUT });
        s.link_overrides.push((peer_addr(1), peer_addr(0), l));
        let api = i % 2 == 1;
        if api {
            s.kill = None;
            s.notify_ms = 20_000;
            s.timeout_ms = 30_000;
            let h = s.peers[1][0];
            let at = rr.range(1500, 3000);
            s.actions.push(Action { node: 0, when: Trigger::AtMs(at), act: Act::Disconnect { h } });
            s.actions.push(Action { node: 0, when: Trigger::AtMs(at + rr.range(1, 400)), act: Act::Disconnect { h } });
        }
        if rr.chance(0.5) {
            let sp = spec_cfg(&mut rr, 2000);
            s.specs.push(sp);
        }
        s.settle_ms = 1500;
        out.push(wcase(format!("{}-{i}", if api { "api-noinput" } else { "kill-noinput" }), s));
    }
    out
}

fn v(clause: &str, detail: String, node: Addr, t: u64) -> Viol {
    Viol { prop: "C07", clause: clause.into(), detail, t_ms: t.saturating_sub(T0) / MS, node, panic: None }
}

/// timeline clauses for every handle a node regards as disconnected
pub fn check_cutoff_timeline(w: &Core, ni: usize, out: &mut Outcome) {
    let n = &w.nodes[ni];
    for h in 0..w.np {
        let (disc, l) = n.fin.cs[h];
        if !disc {
            continue;
        }
        let mut turned = 0;
        for f in 0..n.game.frames_recorded() {
            let Some(row) = n.game.row(f) else { continue };
            out.count("cutoff_timeline_frames_checked", 1);
            if f <= l {
                if Some(row[h].0) != w.truth.get(h, f) || row[h].1 == InputStatus::Disconnected {
                    out.violate(v("real input before the cut-off replaced or marked Disconnected", format!("node {} player {h} frame {f} <= last received {l}: {:?}, truth {:?}", n.addr, row[h], w.truth.get(h, f)), n.addr, w.end_t));
                    return;
                }
            } else {
                if row[h] != (Inp::default(), InputStatus::Disconnected) {
                    out.violate(v("frame after the cut-off is not (default, Disconnected)", format!("node {} player {h} frame {f} > last received {l}: {:?} (game at {})", n.addr, row[h], n.game.frame()), n.addr, w.end_t));
                    return;
                }
                if n.game.sims(f) > 1 {
                    turned += 1;
                }
            }
        }
        out.count("resimulated_frames_turned_disconnected", turned);
    }
}

pub fn run_case(c: &WCase) -> Outcome {
    let o = Oracles { c02: true, c03: true, ..Default::default() };
    let api = c.id.starts_with("api-");
    run_world_case(c, o, "C07", &["C02", "C03"], &|w, out| {
        // C02/C03 oracles run as supporting monitors; their alarms are C07-relevant only through the timeline clauses
        if !w.viols.is_empty() {
            return;
        }
        let s = &w.scn;
        let surv = &w.nodes[0];
        let dead_addr = peer_addr(1);
        let period_ms = 1000 / s.fps as u64 + 1;
        let slack = (period_ms + surv.cfg.jitter_ms + 2) * MS;
        if !api {
            let Some(tk) = w.killed_at else {
                out.inconclusive("the peer was never killed");
                return;
            };
            if w.nodes.iter().any(|n| n.running_at.is_none_or(|t| t > tk)) {
                out.inconclusive("peer killed before every session was Running");
                return;
            }
            let Some(&t_rx) = w.net.borrow().last_rx.get(&(dead_addr, surv.addr)) else {
                out.inconclusive("nothing was ever received from the dying peer");
                return;
            };
            let evs: Vec<&(u64, Ev)> = surv.events.iter().filter(|(_, e)| e.addr() == Some(dead_addr)).collect();
            if w.nodes.iter().any(|n| n.events.iter().any(|(t, e)| matches!(e, Ev::Disconnected { .. }) && *t <= tk)) {
                out.inconclusive("the connection had already timed out before the peer died (short timeout on a lossy link)");
                return;
            }
            // ... or between two packets of the dying peer: with a timeout as short as the gaps of a slow-cadence stream
            // (lockstep over a 40 ms link sends every ~100 ms) the survivor times the peer out while packets are still on
            // their way; whether such a timeout matches a real silence is C12's business (per-silence oracle)
            if evs.iter().any(|(t, e)| matches!(e, Ev::Disconnected { .. }) && *t <= t_rx) {
                out.inconclusive("the connection timed out between two packets of the dying peer (timeout as short as the stream's gaps)");
                return;
            }
            let after_sync: Vec<&(u64, Ev)> = evs.iter().copied().filter(|(t, _)| *t > t_rx).collect();
            let ints: Vec<&(u64, Ev)> = after_sync.iter().copied().filter(|(_, e)| matches!(e, Ev::Interrupted { .. })).collect();
            let discs: Vec<&(u64, Ev)> = after_sync.iter().copied().filter(|(_, e)| matches!(e, Ev::Disconnected { .. })).collect();
            let (notify, timeout) = (s.notify_ms * MS, s.timeout_ms * MS);
            // a NetworkInterrupted that began before the death (lossy link) is legitimate; judge the final one
            if w.end_t < t_rx + timeout + slack + 1200 * MS {
                out.inconclusive("run ended before the disconnect could be judged");
                return;
            }
            if notify < timeout {
                let pending_before = evs.iter().filter(|(t, _)| *t <= t_rx).last().is_some_and(|(_, e)| matches!(e, Ev::Interrupted { .. }));
                if !pending_before {
                    match ints.first() {
                        None => {
                            out.violate(v("NetworkInterrupted never raised", format!("last packet at {} ms, notify delay {} ms", (t_rx - T0) / MS, s.notify_ms), surv.addr, w.end_t));
                            return;
                        }
                        Some((t, e)) => {
                            let lag = *t as i64 - (t_rx + notify) as i64;
                            out.count(&format!("interrupted_slack_ms_{:02}", (lag / MS as i64).clamp(-1, 30)), 1);
                            if lag < 0 || lag > slack as i64 {
                                out.violate(v("NetworkInterrupted at the wrong time", format!("raised {} ms after the last packet, notify delay {} ms, allowed slack {} ms", (*t - t_rx) / MS, s.notify_ms, slack / MS), surv.addr, *t));
                                return;
                            }
                            if let Ev::Interrupted { timeout: to, .. } = e {
                                if *to != (s.timeout_ms - s.notify_ms) as u128 {
                                    out.violate(v("NetworkInterrupted carries the wrong remaining time", format!("disconnect_timeout field {to}, expected {}", s.timeout_ms - s.notify_ms), surv.addr, *t));
                                    return;
                                }
                            }
                        }
                    }
                }
            }
            if discs.len() != 1 {
                out.violate(v("Disconnected not reported exactly once", format!("{} Disconnected events for address {dead_addr}: {:?}", discs.len(), after_sync), surv.addr, w.end_t));
                return;
            }
            let td = discs[0].0;
            let lag = td as i64 - (t_rx + timeout) as i64;
            out.count(&format!("disconnected_slack_ms_{:02}", (lag / MS as i64).clamp(-1, 30)), 1);
            if lag < 0 || lag > slack as i64 {
                out.violate(v("Disconnected at the wrong time", format!("raised {} ms after the last packet, timeout {} ms, allowed slack {} ms", (td - t_rx) / MS, s.timeout_ms, slack / MS), surv.addr, td));
                return;
            }
            let pos = evs.iter().position(|(_, e)| matches!(e, Ev::Disconnected { .. })).unwrap();
            if let Some((t, e)) = evs.get(pos + 1) {
                out.violate(v("event reported for an address after its Disconnected", format!("{e:?} at {} ms", (*t - T0) / MS), surv.addr, *t));
                return;
            }
            // keeps advancing on its own: one frame per tick
            // (a survivor that was only polling starts to advance again when its pause ends)
            let td = surv.cfg.poll_only.iter().map(|(_, b)| T0 + b * MS).fold(td, u64::max);
            if w.end_t < td + 1100 * MS {
                out.inconclusive("run ended before the survivor's progress could be judged");
                return;
            }
            let got = w.frames_between(0, td + 50 * MS, td + 1050 * MS);
            let target_reached = surv.reached_target_at.is_some_and(|t| t < td + 1050 * MS);
            if !target_reached {
                out.count("lone_survivor_progress_windows", 1);
                // a lone survivor with sparse saving and a window of 1 legitimately alternates between
                // a saving rollback and an advance (every other tick); anything below a third of the
                // ticks is a stall
                let want = (1000 / period_ms) as i32 / 3;
                out.count(&format!("lone_survivor_frames_per_second_{:02}x", got / 10), 1);
                if got < want {
                    out.violate(v("the survivor does not keep advancing on its own", format!("advanced {got} frames in the second after Disconnected (expected >= {want})"), surv.addr, td));
                    return;
                }
            }
        } else {
            // explicit disconnect_player: first call Ok, repeated call rejected
            let log = &surv.action_log;
            if log.len() < 2 {
                out.inconclusive("the scripted disconnect calls were not reached");
                return;
            }
            if log[0].1 != "Ok" || log[1].1 != "InvalidRequest" {
                out.violate(v("disconnect_player results", format!("first call {:?}, repeated call {:?} (expected Ok, InvalidRequest)", log[0].1, log[1].1), surv.addr, w.end_t));
                return;
            }
            out.count("explicit_disconnects", 1);
            // "disconnects a remote player and all other remote players with the same address"
            let behind: Vec<usize> = s.peers[1].clone();
            if let Some(h) = behind.iter().find(|h| !surv.fin.cs[**h].0) {
                out.violate(v("disconnect_player did not drop every player behind the address", format!("player {h} of address {dead_addr} is still connected after disconnect_player({}); connection status {:?}", behind[0], surv.fin.cs), surv.addr, w.end_t));
                return;
            }
            // ... and the caller keeps advancing on its own
            if surv.reached_target_at.is_none() {
                let late = w.frames_between(0, w.end_t.saturating_sub(2500 * MS), w.end_t);
                if late < 10 {
                    out.violate(v("the session does not keep advancing after disconnect_player", format!("frame {} of {}, {late} frames in the last 2.5 s, connection status {:?}", surv.game.frame(), s.frames, surv.fin.cs), surv.addr, w.end_t));
                    return;
                }
            }
        }
        for ni in 0..w.nodes.len() {
            if !w.nodes[ni].is_spec && w.nodes[ni].alive {
                check_cutoff_timeline(w, ni, out);
            }
        }
        // spectators of the surviving host see the same
        if matches!(out.verdict, Verdict::Held) {
            crate::props::c06::compare_with_host_pub(w, out, "C07");
        }
        let l_min = w.scn.peers[1].iter().map(|h| surv.fin.cs[*h].1).min().unwrap_or(-1);
        let corrected = (l_min + 1..surv.game.frames_recorded()).any(|f| surv.game.sims(f) > 1);
        out.nontrivial = surv.fin.cs.iter().any(|c| c.0) && (corrected || w.obs.stalls > 0 || w.scn.mp == 0);
        if corrected {
            out.count("runs_needing_a_corrective_rollback", 1);
        }
    })
}

pub fn check(ctx: &Ctx) -> i32 {
    let started = Instant::now();
    let cs = filter_cases(ctx, cases(ctx));
    let res = par_run(ctx, &cs, &|c: &WCase| c.id.clone(), &run_case);
    let meta = Meta {
        level: "fault_enumeration",
        rule: "(spectators of the survivor: catch-up 1..8 frames per call, max_frames_behind 1..10, half of them lagging - slow ticks or a pause around the drop - so that the cut-off falls inside a multi-frame catch-up step) two-peer sessions (1+1, 2+2, 2+1, 1+2 players), rollback and lockstep (windows 0,1,2,3,8,12), delays 0..=3, sparse on/off, both predictors, notify delay {100,300,500,1000} ms, timeout = notify + {0,200,1500} ms, lossy links; the remote is killed at a random moment 1.5-3 s after start (after all sessions are Running) and each of its in-flight packets is dropped with probability {0,0.5,1}; with and without a spectator; plus explicit disconnect_player calls (with a repeated call) at random moments, the caller polling 1/2/4/8 times per frame; plus a paused-game family in which the survivor only polls (no advance_frame) from up to 150 ms before the death until after the timeout and then plays on; plus a family in which every Input packet of the remote is lost from the start, so that it is dropped (by timeout or by the application) before its first input ever arrived. With T_rx = time the survivor's socket last handed over a packet of the dead peer: NetworkInterrupted must fall in [T_rx+notify, +slack] with field timeout-notify, Disconnected in [T_rx+timeout, +slack] exactly once and nothing after it for that address (slack = one tick period + tick jitter + 2 ms); the survivor then keeps advancing (at least a third of its ticks over the next second: sparse saving with window 1 legitimately advances every other tick); in its final timeline the dropped players have the real inputs up to the last received frame and (default, Disconnected) afterwards, including frames simulated earlier with predictions; spectators agree with the host's final timeline. Non-trivial: a player is disconnected at the end and a corrective rollback was needed, or the survivor stalled, or lockstep. Distinct: configuration + trace hash.".into(),
        assumptions: std_assumptions(),
        floor_nontrivial: if ctx.quick() { 300 } else { 8000 },
        exhaustive: None,
        extra: Map::new(),
    };
    conclude(ctx, meta, res, started).exit
}
