//! C15 — time-sync estimates (frames_ahead, ping) are right; wait advice is sane.
use crate::base::*;
use crate::fw::*;
use crate::gen::*;
use crate::net::*;
use crate::scn::*;
use crate::world::*;
use serde_json::Map;
use std::time::Instant;

pub struct Case {
    pub id: String,
    pub scn: Scn,
    pub k: i32,
    pub lat: u64,
    /// when the side that is to fall behind goes to sleep (after the handshake: five round trips)
    pub pause_at: u64,
    /// only the ping / stats clauses are judged (the peer polls once per tick)
    pub ping_only: bool,
    /// a third peer lags, dies and is dropped before the judged window
    pub after_drop: bool,
}

pub fn cases(ctx: &Ctx) -> Vec<Case> {
    let mut out = vec![];
    let mut r = Rng::new(ctx.seed ^ 0xC15);
    let lats = [0u64, 5, 10, 20, 50, 100];
    let fpss = [60usize, 30, 120];
    let mut i = 0u64;
    for k in -7..=7i32 {
        for &lat in &lats {
            for (fi, &fps) in fpss.iter().enumerate() {
                i += 1;
                // quick: one fps per (k, latency) cell, rotating with the seed; thorough: all
                let _ = fi;
                let reps = if ctx.quick() { 2 } else { 12 };
                for rep in 0..reps {
                    let mut rr = r.fork(i * 16 + rep);
                    let mut s = Scn::base(rr.next());
                    s.peers = vec![vec![0], vec![1]];
                    s.fps = fps;
                    // window large enough not to stall (some cases deliberately small: judged against the measured lead all the same)
                    s.mp = if rr.chance(0.15) { rr.pick(&[2usize, 4]) } else { 16 };
                    s.delay = rr.pick(&[0usize, 2]);
                    s.frames = 900;
                    s.link = Link::clean(lat);
                    s.notify_ms = 20_000;
                    s.timeout_ms = 30_000;
                    s.start = Start::AllRunning;
                    let period_ms = 1000.0 / fps as f64;
                    let pause = (k.unsigned_abs() as f64 * period_ms).round() as u64;
                    let pause_at = 1500 + 12 * lat.saturating_sub(100);
                    for n in 0..2 {
                        let mut c = NodeCfg { polls_per_tick: 8, jitter_ms: 0, ..Default::default() };
                        // the side that is to fall behind sleeps |k| frames once everybody is running
                        if (k > 0 && n == 1) || (k < 0 && n == 0) {
                            c.pauses.push((pause_at, pause_at + pause));
                        }
                        s.nodes.push(c);
                    }
                    s.settle_ms = 100;
                    out.push(Case { id: format!("k{k}-lat{lat}-fps{fps}-{rep}"), scn: s, k, lat, pause_at, ping_only: false, after_drop: false });
                }
            }
        }
    }
    // slow-polling peer: the other side polls once per tick only, so its replies leave up to one tick late and, at
    // latencies near 100 ms, reach the observer AFTER its next quality report (sent every 200 ms) has gone out.
    // Node 0 is the observer (8 polls per tick); only its ping is judged: 2l <= ping <= 2l + one tick (+ poll granularity).
    for j in 0..ctx.n(120, 1500) {
        let mut rr = r.fork(0x5100_0000 + j as u64);
        let mut s = Scn::base(rr.next());
        s.peers = vec![vec![0], vec![1]];
        s.fps = rr.pick(&[30usize, 60, 20]);
        s.mp = 16;
        s.delay = rr.pick(&[0usize, 2]);
        s.frames = if s.fps == 60 { 600 } else { 300 };
        let lat = rr.pick(&[85u64, 90, 95, 98, 100]);
        s.link = Link::clean(lat);
        s.notify_ms = 20_000;
        s.timeout_ms = 30_000;
        s.start = Start::AllRunning;
        s.nodes.push(NodeCfg { polls_per_tick: 8, jitter_ms: 0, ..Default::default() });
        s.nodes.push(NodeCfg { polls_per_tick: 1, jitter_ms: rr.pick(&[0u64, 2]), ..Default::default() });
        s.settle_ms = 100;
        out.push(Case { id: format!("slowpeer-lat{lat}-fps{}-{j}", s.fps), scn: s, k: 0, lat, pause_at: 1500, ping_only: true, after_drop: false });
    }
    // one quality report (or reply) is lost before the lead is established: the estimates must still settle (the next report
    // goes out 200 ms later); judged exactly like the grid
    for j in 0..ctx.n(60, 900) {
        let mut rr = r.fork(0x5300_0000 + j as u64);
        let mut s = Scn::base(rr.next());
        s.peers = vec![vec![0], vec![1]];
        s.fps = 60;
        s.mp = 16;
        s.delay = rr.pick(&[0usize, 2]);
        s.frames = 900;
        let lat = rr.pick(&[5u64, 20, 50]);
        s.link = Link::clean(lat);
        s.notify_ms = 20_000;
        s.timeout_ms = 30_000;
        s.start = Start::AllRunning;
        let k = rr.pick(&[-6i32, -4, 3, 5, 7]);
        let period_ms = 1000.0 / 60.0;
        for n in 0..2 {
            let mut c = NodeCfg { polls_per_tick: 8, jitter_ms: 0, ..Default::default() };
            if (k > 0 && n == 1) || (k < 0 && n == 0) {
                c.pauses.push((1500, 1500 + (k.unsigned_abs() as f64 * period_ms).round() as u64));
            }
            s.nodes.push(c);
        }
        // a window of 210 ms holds exactly one report of the 200 ms cadence (and/or its reply)
        let (from, to) = if rr.chance(0.5) { (peer_addr(0), peer_addr(1)) } else { (peer_addr(1), peer_addr(0)) };
        let at = rr.range(700, 1400);
        let mut l = s.link.clone();
        l.outages.push(Outage { from_ms: at, to_ms: at + 210, kinds: rr.pick(&[1u16 << K_QREP, 1 << K_QRPL, (1 << K_QREP) | (1 << K_QRPL)]) });
        s.link_overrides.push((from, to, l));
        s.settle_ms = 100;
        out.push(Case { id: format!("lostreport-k{k}-lat{lat}-{j}"), scn: s, k, lat, pause_at: 1500, ping_only: false, after_drop: false });
    }
    // lockstep sessions (window 0): the input delay is what lets one side run ahead (by at most delay - latency in frames - 1),
    // the time-sync estimates and the wait advice must be just as right there (added after round-6 seed C15)
    for j in 0..ctx.n(90, 1200) {
        let mut rr = r.fork(0x5400_0000 + j as u64);
        let mut s = Scn::base(rr.next());
        s.peers = vec![vec![0], vec![1]];
        s.fps = rr.pick(&[60usize, 60, 30]);
        s.mp = 0;
        s.delay = rr.pick(&[4usize, 6, 8]);
        s.frames = 900;
        let lat = rr.pick(&[0u64, 5, 10, 20]);
        s.link = Link::clean(lat);
        s.notify_ms = 20_000;
        s.timeout_ms = 30_000;
        s.start = Start::AllRunning;
        let period_ms = 1000.0 / s.fps as f64;
        let lat_frames = (lat as f64 / period_ms).ceil() as i32;
        let kmax = (s.delay as i32 - lat_frames - 2).max(0);
        let k = if kmax == 0 { 0 } else { rr.range(0, kmax as u64) as i32 * if rr.chance(0.5) { 1 } else { -1 } };
        for n in 0..2 {
            let mut c = NodeCfg { polls_per_tick: 8, jitter_ms: 0, ..Default::default() };
            if (k > 0 && n == 1) || (k < 0 && n == 0) {
                c.pauses.push((1500, 1500 + (k.unsigned_abs() as f64 * period_ms).round() as u64));
            }
            s.nodes.push(c);
        }
        s.settle_ms = 100;
        out.push(Case { id: format!("lockstep-k{k}-d{}-lat{lat}-fps{}-{j}", s.delay, s.fps), scn: s, k, lat, pause_at: 1500, ping_only: false, after_drop: false });
    }
    // zero latency and very fast pollers (1000 polls per tick: a round trip of about 0.03 ms, so the library's millisecond
    // clock measures 0 ms round trips), with one hiccup of 250 ms - longer than the report interval, so a quality report is
    // certainly in flight during it - that leaves one side 15 frames behind: the ping must come back to 0, not stay at the
    // hiccup (round-7 seed C15; with the documented 8 polls per tick a round trip is never below 2 ms in the simulation)
    for j in 0..ctx.n(4, 48) {
        let mut rr = r.fork(0x5500_0000 + j as u64);
        let mut s = Scn::base(rr.next());
        s.peers = vec![vec![0], vec![1]];
        s.fps = 60;
        s.mp = 24;
        s.delay = rr.pick(&[0usize, 2]);
        s.frames = 600;
        s.link = Link::clean(0);
        s.notify_ms = 20_000;
        s.timeout_ms = 30_000;
        s.start = Start::AllRunning;
        let slow = (j % 2) as usize;
        for n in 0..2 {
            let mut c = NodeCfg { polls_per_tick: 1000, jitter_ms: 0, ..Default::default() };
            if n == slow {
                c.pauses.push((1500, 1750));
            }
            s.nodes.push(c);
        }
        s.settle_ms = 100;
        let k = if slow == 1 { 15 } else { -15 };
        out.push(Case { id: format!("zerolat-k{k}-{j}"), scn: s, k, lat: 0, pause_at: 1500, ping_only: false, after_drop: false });
    }
    // a third peer that lags behind, dies and is dropped: afterwards the two survivors' estimates must be about each other
    // only (level: about zero, no wait recommendation; a lead of k: +k / -k)
    for j in 0..ctx.n(36, 600) {
        let mut rr = r.fork(0x5200_0000 + j as u64);
        let mut s = Scn::base(rr.next());
        s.peers = vec![vec![0], vec![1], vec![2]];
        s.fps = 60;
        s.mp = 16;
        s.delay = rr.pick(&[0usize, 2]);
        s.frames = 900;
        let lat = rr.pick(&[5u64, 20, 50]);
        s.link = Link::clean(lat);
        s.notify_ms = 200;
        s.timeout_ms = 500;
        s.start = Start::AllRunning;
        let k = rr.pick(&[0i32, 0, 3, -4]);
        let period_ms = 1000.0 / 60.0;
        for n in 0..3 {
            let mut c = NodeCfg { polls_per_tick: 8, jitter_ms: 0, ..Default::default() };
            if n == 2 {
                // the third peer falls 8 frames behind
                c.pauses.push((1200, 1200 + (8.0 * period_ms) as u64));
            }
            if (k > 0 && n == 1) || (k < 0 && n == 0) {
                c.pauses.push((1500, 1500 + (k.unsigned_abs() as f64 * period_ms).round() as u64));
            }
            s.nodes.push(c);
        }
        let died = rr.range(2600, 3400);
        s.kill = Some(Kill { node: 2, at_ms: died, pdrop: 0.0 });
        s.settle_ms = 100;
        out.push(Case { id: format!("afterdrop-k{k}-lat{lat}-{j}"), scn: s, k, lat, pause_at: died + 500, ping_only: false, after_drop: true });
    }
    out
}

fn v(clause: &str, detail: String, node: Addr, t: u64) -> Viol {
    Viol { prop: "C15", clause: clause.into(), detail, t_ms: t.saturating_sub(T0) / MS, node, panic: None }
}

fn frame_at(ft: &[(u64, i32)], t: u64) -> i32 {
    ft.iter().take_while(|(x, _)| *x <= t).last().map(|p| p.1).unwrap_or(0)
}

pub fn run_case(c: &Case) -> Outcome {
    let w = run_scn_opts(&c.scn, Oracles::default(), true);
    let mut out = Outcome::new(world_desc(&w));
    absorb_obs(&mut out, &w);
    take_viols(&mut out, &w, "C15", &[]);
    out.sig = mix(world_sig(&w), hash_str(&c.id));
    if !w.viols.is_empty() {
        return out;
    }
    if c.after_drop {
        // the third peer must be gone, the two survivors must still be connected to each other
        let ok = w.nodes[..2].iter().all(|n| n.fin.cs.len() == 3 && n.fin.cs[2].0 && !n.fin.cs[0].0 && !n.fin.cs[1].0);
        if !ok {
            out.inconclusive("the third peer was not dropped by both survivors (or they lost each other)");
            return out;
        }
        out.count("windows_after_a_third_peer_was_dropped", 1);
    } else if left_space_by_disconnect(&w) {
        out.inconclusive("a disconnect happened");
        return out;
    }
    let s = &c.scn;
    let period = 1_000_000_000u64 / s.fps as u64;
    let (a, b) = (&w.nodes[0], &w.nodes[1]);
    // ---- network_stats before enough data: never numbers during the first second
    for n in [a, b] {
        if let Some(t) = n.stats_first_ok {
            out.count("stats_first_ok_observed", 1);
            if t < T0 + 1000 * MS {
                out.violate(v("network_stats returned numbers during the first second", format!("node {}: first Ok at t={} ms after session creation", n.addr, (t - T0) / MS), n.addr, t));
                return out;
            }
        }
        for (k, cnt) in &n.stats_errs_before_ok {
            out.count(&format!("stats_error_before_data_{k}"), *cnt);
            if k != "NotSynchronized" && k != "NotEnoughData" {
                out.violate(v("network_stats returned an unexpected error before enough data existed", format!("node {}: {k}", n.addr), n.addr, 0));
                return out;
            }
        }
    }
    // ---- steady part: after the pause, a warm-up of 90 frames and 3 quality report intervals
    let t_steady = T0 + c.pause_at * MS + (c.k.unsigned_abs() as u64 + 90) * period + 700 * MS;
    // ... and before either side comes close to the frame target (where it stops advancing)
    let t_end = [a, b].iter().map(|n| n.frame_times.iter().find(|(_, f)| *f >= s.frames - 20).map(|x| x.0).unwrap_or(w.end_t)).min().unwrap();
    let recs_a: Vec<&FaRec> = a.fa_log.iter().filter(|r| r.t >= t_steady && r.t < t_end).collect();
    let recs_b: Vec<&FaRec> = b.fa_log.iter().filter(|r| r.t >= t_steady && r.t < t_end).collect();
    if recs_a.len() < 120 || recs_b.len() < 120 {
        out.inconclusive("too few steady observations");
        return out;
    }
    // ---- ping within one tick of the true round trip time
    for (n, recs) in [(a, &recs_a), (b, &recs_b)] {
        if c.ping_only && n.addr != a.addr {
            continue;
        }
        for r in recs.iter().filter(|r| r.ping >= 0) {
            let err = r.ping - 2 * c.lat as i64;
            out.count(&format!("ping_error_ms_{:+03}", err.clamp(-9, 40)), 1);
            // slow peer: its reply leaves up to one of ITS ticks (+ its tick jitter) late, and the observer sees it at its
            // next poll (an eighth of a tick later at most); no implementation can report less than that
            let slack = if c.ping_only { (period / MS) as i64 / 8 + 2 + 2 } else { 0 };
            if err < 0 || err > (period / MS) as i64 + 1 + slack {
                out.violate(v("network_stats().ping is not within one tick of the true round-trip time", format!("node {} at t={} ms: ping {} ms, link round trip {} ms, tick {} ms", n.addr, (r.t - T0) / MS, r.ping, 2 * c.lat, period / MS), n.addr, r.t));
                return out;
            }
        }
    }
    if c.ping_only {
        out.nontrivial = true;
        out.count("slow_peer_windows", 1);
        return out;
    }
    // measured lead of A over B at each side's observation instants
    let lead_a: Vec<i32> = recs_a.iter().map(|r| r.frame - frame_at(&b.frame_times, r.t)).collect();
    let lead_b: Vec<i32> = recs_b.iter().map(|r| frame_at(&a.frame_times, r.t) - r.frame).collect();
    let kmin = *lead_a.iter().chain(lead_b.iter()).min().unwrap();
    let kmax = *lead_a.iter().chain(lead_b.iter()).max().unwrap();
    out.count(&format!("runs_with_measured_lead_spread_{}", (kmax - kmin).min(9)), 1);
    if kmax - kmin > 2 {
        // the lead was not constant (prediction-window stalls): not a steady window
        out.inconclusive("the measured lead was not steady");
        return out;
    }
    out.count("steady_windows", 1);
    out.count("steady_observations", (recs_a.len() + recs_b.len()) as u64);
    for r in &recs_a {
        let e = if r.fa < kmin { r.fa - kmin } else if r.fa > kmax { r.fa - kmax } else { 0 };
        out.count(&format!("A_frames_ahead_error_{:+03}", e.clamp(-9, 9)), 1);
        if e.abs() > 1 {
            out.violate(v("frames_ahead() of the leading/lagging peer is off by more than one frame", format!("node {} at t={} ms: frames_ahead() = {}, measured lead of A over B in [{kmin}, {kmax}] (latency {} ms, fps {})", a.addr, (r.t - T0) / MS, r.fa, c.lat, s.fps), a.addr, r.t));
            return out;
        }
    }
    for r in &recs_b {
        let e = if -r.fa < kmin { -r.fa - kmin } else if -r.fa > kmax { -r.fa - kmax } else { 0 };
        out.count(&format!("B_frames_ahead_error_{:+03}", e.clamp(-9, 9)), 1);
        if e.abs() > 1 {
            out.violate(v("frames_ahead() of the leading/lagging peer is off by more than one frame", format!("node {} at t={} ms: frames_ahead() = {}, measured lead of A over B in [{kmin}, {kmax}] (latency {} ms, fps {})", b.addr, (r.t - T0) / MS, r.fa, c.lat, s.fps), b.addr, r.t));
            return out;
        }
    }
    // sum within one frame of zero (compare observations closest in time)
    for r in recs_a.iter().step_by(7) {
        if let Some(rb) = recs_b.iter().min_by_key(|x| x.t.abs_diff(r.t)) {
            out.count("sum_checks", 1);
            if (r.fa + rb.fa).abs() > 1 {
                out.violate(v("frames_ahead() of the two peers do not sum to about zero", format!("t={} ms: A {} B {}", (r.t - T0) / MS, r.fa, rb.fa), a.addr, r.t));
                return out;
            }
        }
    }
    // ---- what one side reports as local frames behind is what the other reports as remote
    for (x, y, recs_y) in [(a, b, &recs_b), (b, a, &recs_a)] {
        for ry in recs_y.iter().step_by(5).filter(|r| r.ping >= 0) {
            // x's local value at EVERY poll of the last 3 report intervals (600 ms) before ry, allowing for the link latency
            let lo = ry.t.saturating_sub((650 + c.lat) * MS);
            let mut it = x.lfb_log.iter().filter(|(t, _)| *t >= lo && *t <= ry.t);
            let Some((_, first)) = it.next() else { continue };
            let mut n = 1;
            let mut constant = true;
            for (_, v) in it {
                n += 1;
                if v != first {
                    constant = false;
                    break;
                }
            }
            if constant && n >= 100 {
                out.count("local_remote_frames_behind_checks", 1);
                if ry.rfb != *first {
                    out.violate(v("remote_frames_behind differs from the other side's local_frames_behind", format!("t={} ms: node {} reported local_frames_behind {} at every poll of the last 600 ms, node {} reports remote_frames_behind {}", (ry.t - T0) / MS, x.addr, first, y.addr, ry.rfb), y.addr, ry.t));
                    return out;
                }
            }
        }
    }
    // ---- wait recommendations
    for n in [a, b] {
        let mut last_frame: Option<i32> = None;
        for (t, e) in &n.events {
            if let Ev::Wait { skip } = e {
                out.count("wait_recommendations", 1);
                let Some(rec) = n.fa_log.iter().find(|r| r.t == *t) else { continue };
                if rec.fa < 3 || rec.fa != *skip as i32 {
                    out.violate(v("WaitRecommendation does not match frames_ahead()", format!("node {} at t={} ms: skip_frames {skip}, frames_ahead() {}", n.addr, (t - T0) / MS, rec.fa), n.addr, *t));
                    return out;
                }
                if let Some(lf) = last_frame {
                    out.count(&format!("wait_spacing_frames_{:03}", ((rec.frame - lf) / 10 * 10).min(200)), 1);
                    if rec.frame - lf < 60 {
                        out.violate(v("WaitRecommendations less than 60 frames apart", format!("node {}: at frames {lf} and {}", n.addr, rec.frame), n.addr, *t));
                        return out;
                    }
                }
                last_frame = Some(rec.frame);
            }
        }
    }
    out.nontrivial = true;
    if s.mp == 0 {
        out.count("steady_windows_lockstep", 1);
        if kmin.abs() >= 1 {
            out.count("steady_windows_lockstep_with_a_lead", 1);
        }
    }
    if kmin.abs() >= 3 {
        out.count("steady_windows_with_lead_ge_3", 1);
    }
    if kmin <= 0 && kmax >= 0 {
        out.count("steady_windows_level", 1);
    }
    out
}

pub fn check(ctx: &Ctx) -> i32 {
    let started = Instant::now();
    let cs: Vec<Case> = cases(ctx).into_iter().filter(|c| ctx.only_case.as_ref().is_none_or(|o| *o == c.id)).collect();
    let res = par_run(ctx, &cs, &|c: &Case| c.id.clone(), &run_case);
    let meta = Meta {
        level: "exploration",
        rule: "two peers over a clean link with symmetric latency {0,5,10,20,50,100} ms, equal input delays, fps {30,60,120}, polling 8 times per frame (as the documented main loop does); a lead k in -7..=7 is produced by letting one side sleep |k| frames once both are Running; 900 frames. The true lead is MEASURED from the harness's own record of both game frames at the same virtual instant. Over the steady part (after the sleep, 90 frames and 700 ms of warm-up; only if the measured lead varies by at most 2): frames_ahead() of A within 1 of the measured lead interval, of B within 1 of its negation, their sum within 1 of zero; network_stats().ping in [2l, 2l + one tick] (judged whether or not the lead was steady); remote_frames_behind equals the other side's local_frames_behind whenever that was constant for 3 report intervals; every WaitRecommendation has skip_frames == frames_ahead() >= 3 and successive ones are >= 60 frames apart; network_stats returns only NotSynchronized/NotEnoughData, never numbers, during the first second after session creation. A fourth family (lostreport) loses exactly one quality report and/or reply (a 210 ms outage of those message kinds in one direction) before the lead is established. A third family (afterdrop) adds a third peer that lags 8 frames, dies and is dropped (timeout 500 ms); the two survivors are then judged exactly like a two-peer session, from 90 frames + 700 ms after the drop. A fifth family (lockstep) runs window 0 with input delays {4,6,8}, where the delay lets one side lead by up to delay - latency - 2 frames; judged exactly like the grid. A sixth family (zerolat): latency 0, both sides polling 1000 times per tick (round trips of about 0.03 ms, measured as 0 ms by the library's millisecond clock) and one hiccup of 250 ms; judged like the grid. A second family (slowpeer) has the other side poll only once per tick at latencies 85..100 ms and fps {20,30,60}, so that its quality replies arrive after the observer's next report went out; there only the observer's ping (2l .. 2l + one tick of the peer + one poll interval of the observer + 4 ms of tick jitter and rounding) and the not-enough-data clause are judged. Non-trivial: a steady window was judged. Distinct: grid cell + trace hash.".into(),
        assumptions: std_assumptions(),
        floor_nontrivial: if ctx.quick() { 150 } else { 1000 },
        exhaustive: None,
        extra: Map::new(),
    };
    conclude(ctx, meta, res, started).exit
}
