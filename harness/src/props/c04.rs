//! C04 — speculation is bounded by the prediction window; lockstep never speculates.
use crate::base::*;
use crate::fw::*;
use crate::gen::*;
use crate::net::*;
use crate::scn::*;
use crate::world::*;
use serde_json::Map;
use std::time::Instant;

pub fn cases(ctx: &Ctx) -> Vec<WCase> {
    let mut out = vec![];
    let mut r = Rng::new(ctx.seed ^ 0xC04);
    for i in 0..ctx.n(8000, 400_000) {
        let mut rr = r.fork(i as u64);
        let mut s = gen_starved(&mut rr, 400);
        // cover the whole grid windows 0..=12 x delays 0..=6 systematically
        s.mp = i % 13;
        s.delay = (i / 13) % 7;
        out.push(wcase(format!("starved-{i}"), s));
    }
    for i in 0..ctx.n(2500, 120_000) {
        let mut rr = r.fork(0x2000_0000 + i as u64);
        let mut s = gen_death2(&mut rr, 400);
        s.mp = i % 13;
        out.push(wcase(format!("death2-{i}"), s));
    }
    // a mesh of three or four peers loses one peer, plays on, and LATER one of the remaining remotes stops delivering
    // inputs for a while: the bound must then be computed from the players that are still connected
    for i in 0..ctx.n(1500, 60_000) {
        let mut rr = r.fork(0x3000_0000 + i as u64);
        let mut s = Scn::base(rr.next());
        s.peers = rr.pick(&[vec![vec![0], vec![1], vec![2]], vec![vec![0], vec![1], vec![2], vec![3]], vec![vec![0, 1], vec![2], vec![3]]]);
        s.pred = rr.below(2) as u8;
        s.mp = 1 + i % 12;
        s.delay = rr.below(3) as usize;
        s.sparse = rr.chance(0.4);
        s.frames = 500;
        s.notify_ms = 200;
        s.timeout_ms = 500;
        s.link = Link::clean(rr.pick(&[0u64, 10, 30]));
        let n = s.peers.len();
        let victim = 1 + rr.below(n as u64 - 1) as usize;
        let t1 = rr.range(1500, 2500);
        s.kill = Some(Kill { node: victim, at_ms: t1, pdrop: 0.0 });
        // node 0 is starved by one of the remaining remotes (only input packets are held back: the link stays alive)
        let starver = (1..n).filter(|x| *x != victim).nth(rr.below(n as u64 - 2) as usize).unwrap();
        let a = t1 + 500 + rr.range(800, 2000);
        let mut l = s.link.clone();
        l.outages.push(Outage { from_ms: a, to_ms: a + rr.pick(&[300u64, 1000, 3000]), kinds: 1 << K_INPUT });
        s.link_overrides.push((peer_addr(starver), peer_addr(0), l));
        s.start = Start::AllRunning;
        s.settle_ms = 500;
        out.push(wcase(format!("dropstarve-{i}"), s));
    }
    out
}

pub fn run_case(c: &WCase) -> Outcome {
    let o = Oracles { c04: true, ..Default::default() };
    run_world_case(c, o, "C04", &[], &|w, out| {
        for (d, k) in w.obs.c04_dist.iter().enumerate() {
            if *k > 0 {
                out.count(&format!("new_frame_distance_to_confirmed_{d:02}"), *k);
            }
        }
        out.count("new_frames_exactly_at_window", w.obs.c04_at_limit);
        out.count("lockstep_stalls", w.obs.lockstep_stalls);
        out.count("lockstep_advances", w.obs.lockstep_advances);
        if w.scn.mp == 0 {
            out.nontrivial = w.obs.lockstep_stalls > 0 && w.obs.lockstep_advances > 0;
        } else {
            out.nontrivial = w.obs.stalls > 0 && w.obs.c04_at_limit > 0;
        }
    })
}

pub fn check(ctx: &Ctx) -> i32 {
    let started = Instant::now();
    let cs = filter_cases(ctx, cases(ctx));
    let res = par_run(ctx, &cs, &|c: &WCase| c.id.clone(), &run_case);
    let meta = Meta {
        level: "exploration",
        rule: "grid windows 0..=12 x delays 0..=6 x sparse x topologies, one peer starved (outages 17 ms..50 s into it, or a paused remote), lossy links, lockstep with advance_frame / advance_frame_with_wait / _timeout, plus two-peer deaths, plus meshes of 3-4 peers that lose one peer and later have node 0 starved by one of the remaining remotes. After every Ok call: a newly simulated frame N must satisfy N - confirmed_frame() <= window AND N - K <= window, where K is the harness's own record of the newest input frame delivered from every remote address whose players are still connected; every LoadGameState depth <= window; with window 0: no Save/Load, at most one AdvanceFrame, no Predicted status, Confirmed values equal the truth, a stalled call leaves current_frame() unchanged. Non-trivial: >=1 stalled call and >=1 new frame simulated exactly at distance == window (lockstep: >=1 stall and >=1 advance). Distinct: configuration bucket + trace hash.".into(),
        assumptions: std_assumptions(),
        floor_nontrivial: if ctx.quick() { 150 } else { 4000 },
        exhaustive: None,
        extra: Map::new(),
    };
    conclude(ctx, meta, res, started).exit
}
