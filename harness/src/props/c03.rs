//! C03 — input status is truthful and confirmed inputs are final.
use crate::base::*;
use crate::fw::*;
use crate::gen::*;
use crate::world::*;
use serde_json::Map;
use std::time::Instant;

pub fn cases(ctx: &Ctx) -> Vec<WCase> {
    let mut out = vec![];
    let mut r = Rng::new(ctx.seed ^ 0xC03);
    for i in 0..ctx.n(8000, 400_000) {
        let mut rr = r.fork(i as u64);
        let mut s = gen_c01_space(&mut rr, 400);
        // held inputs so that predictions are sometimes right
        s.sticky = rr.pick(&[1u32, 3, 3, 10, 10]);
        out.push(wcase(format!("c01space-{i}"), s));
    }
    for i in 0..ctx.n(4000, 200_000) {
        let mut rr = r.fork(0x2000_0000 + i as u64);
        out.push(wcase(format!("death2-{i}"), gen_death2(&mut rr, 400)));
    }
    // a live peer is dropped by the application: its packets keep arriving after the drop (the endpoint goes on decoding
    // them for a while), some of them for frames the survivor has not reached yet
    for i in 0..ctx.n(2000, 100_000) {
        let mut rr = r.fork(0x3000_0000 + i as u64);
        let mut s = gen_death2(&mut rr, 400);
        s.kill = None;
        s.notify_ms = 20_000;
        s.timeout_ms = 30_000;
        let h = s.peers[1][0];
        s.actions.push(crate::scn::Action { node: 0, when: crate::scn::Trigger::AtMs(rr.range(1500, 3500)), act: crate::scn::Act::Disconnect { h } });
        // the dropped peer runs a little faster than the survivor in half of the cases (it is then ahead of it)
        let mut fast = crate::scn::NodeCfg::default();
        fast.skew = rr.pick(&[0.0, -0.03, -0.08]);
        let mut c0 = crate::scn::NodeCfg::default();
        c0.polls_per_tick = rr.pick(&[1u64, 2, 4]);
        s.nodes = vec![c0, fast];
        out.push(wcase(format!("apidrop-{i}"), s));
    }
    out
}

pub fn run_case(c: &WCase) -> Outcome {
    let o = Oracles { c03: true, ..Default::default() };
    run_world_case(c, o, "C03", &[], &|w, out| {
        out.count("predicted_although_frame_already_received", w.obs.predicted_though_received);
        out.count("rechecks_of_frames_below_confirmed", w.obs.final_rechecks);
        let b = &w.obs;
        let death = w.scn.kill.is_some() || c.id.starts_with("apidrop");
        out.nontrivial = b.status_confirmed > 0 && b.status_predicted > 0 && b.predicted_wrong > 0 && (b.predicted_right > 0 || w.scn.sticky == 1) && (!death || b.status_disconnected > 0);
        if death && b.status_disconnected > 0 {
            out.count("runs_with_disconnected_status", 1);
        }
        if b.predicted_right > 0 {
            out.count("runs_with_surviving_predictions", 1);
        }
    })
}

pub fn check(ctx: &Ctx) -> i32 {
    let started = Instant::now();
    let cs = filter_cases(ctx, cases(ctx));
    let res = par_run(ctx, &cs, &|c: &WCase| c.id.clone(), &run_case);
    let meta = Meta {
        level: "exploration",
        rule: "random scenarios of C01's space with held inputs (sticky 1/3/10) and two-peer peer-death scenarios (the peer dies, or a live peer is dropped with disconnect_player and keeps sending), both predictors. For every (input,status) pair of every AdvanceFrame (first simulations and re-simulations) the connection-status hook is sampled after the call: local => Confirmed and the submitted value; Confirmed => the frame had been received and the value is the truth; Predicted => predictor(newest received real input) or default if none; Disconnected => default value, player disconnected, cut-off before the frame. Frames at or below a previously observed confirmed_frame() must be re-simulated with identical inputs; confirmed_frame() must never decrease. Non-trivial: Confirmed and Predicted both seen, >=1 wrong and (for held inputs) >=1 right prediction, and in death scenarios >=1 Disconnected status. Distinct: configuration bucket + trace hash.".into(),
        assumptions: std_assumptions(),
        floor_nontrivial: if ctx.quick() { 200 } else { 5000 },
        exhaustive: None,
        extra: Map::new(),
    };
    conclude(ctx, meta, res, started).exit
}
