//! C11 — changing input delay at run time keeps all peers in agreement.
use crate::base::*;
use crate::fw::*;
use crate::gen::*;
use crate::net::*;
use crate::scn::*;
use crate::world::*;
use serde_json::{json, Map};
use std::time::Instant;

fn base2(seed: u64, init_delay: usize, spectator: bool, mp: usize) -> Scn {
    let mut s = Scn::base(seed);
    s.peers = vec![vec![0], vec![1]];
    s.delay = init_delay;
    s.mp = mp;
    s.frames = 260;
    s.link = Link::clean(10);
    s.notify_ms = 20_000;
    s.timeout_ms = 30_000;
    if spectator {
        s.specs.push(SpecCfg::new(0));
    }
    s.settle_ms = 2200;
    s
}

pub fn cases(ctx: &Ctx) -> Vec<WCase> {
    let mut out = vec![];
    // ---- bounded-exhaustive: all sequences of <= L delay values from 0..=6 on player 0
    let maxlen = if ctx.quick() { 2 } else { 3 };
    let gaps: &[i32] = &[0, 1, 2, 5, 12];
    let mut seqs: Vec<Vec<usize>> = vec![];
    for a in 0..=6usize {
        seqs.push(vec![a]);
        for b in 0..=6usize {
            seqs.push(vec![a, b]);
            if maxlen >= 3 {
                for c in 0..=6usize {
                    seqs.push(vec![a, b, c]);
                }
            }
        }
    }
    let mut k = 0u64;
    for seq in &seqs {
        for &init in &[0usize, 2] {
            for (gi, &gap) in gaps.iter().enumerate() {
                if seq.len() == 1 && gi > 0 {
                    continue;
                }
                // three-element sequences: the two gaps are varied together with a second pattern
                for variant in 0..if seq.len() == 3 { 2 } else { 1 } {
                    k += 1;
                    let spectator = k % 3 == 0;
                    let mp = [8usize, 2, 0, 4][(k % 4) as usize];
                    let mut s = base2(ctx.seed.wrapping_mul(131).wrapping_add(k), init, spectator, mp);
                    let mut f = 20 + (k % 2) as i32;
                    for (i, d) in seq.iter().enumerate() {
                        s.actions.push(Action { node: 0, when: Trigger::AtFrame(f), act: Act::SetDelay { h: 0, d: *d } });
                        f += if variant == 1 && i == 1 { gaps[(gi + 2) % gaps.len()] } else { gap };
                    }
                    out.push(wcase(format!("enum-i{init}-{}-g{gap}v{variant}", seq.iter().map(|d| d.to_string()).collect::<Vec<_>>().join("_")), s));
                }
            }
        }
    }
    // ---- random
    let mut r = Rng::new(ctx.seed ^ 0xC11);
    for i in 0..ctx.n(10_000, 500_000) {
        let mut rr = r.fork(i as u64);
        let mut s = Scn::base(rr.next());
        s.peers = rr.pick(&[vec![vec![0], vec![1]], vec![vec![0, 1], vec![2]], vec![vec![0, 2], vec![1, 3]], vec![vec![0], vec![1], vec![2]]]);
        s.mp = rr.pick(&[0usize, 1, 2, 4, 8, 12]);
        s.delay = rr.below(4) as usize;
        s.sparse = rr.chance(0.4);
        s.pred = rr.below(2) as u8;
        s.sticky = 1;
        s.frames = 400;
        s.notify_ms = 20_000;
        s.timeout_ms = 30_000;
        s.link = Link { drop: rr.pick(&[0.0, 0.0, 0.05, 0.2]), dup: rr.pick(&[0.0, 0.1]), base_ms: rr.pick(&[0u64, 10, 40]), jitter_ms: rr.pick(&[0u64, 5, 30]), outages: vec![], faults: vec![], stragglers: vec![] };
        if rr.chance(0.4) {
            s.specs.push(SpecCfg::new(rr.below(s.peers.len() as u64) as usize));
        }
        let p = rr.pick(&[0.005, 0.02, 0.1]);
        // per-player initial delays (the only way to give local players different delays)
        if rr.chance(0.5) {
            for (ni, ls) in s.peers.clone().iter().enumerate() {
                for &h in ls {
                    if rr.chance(0.6) {
                        s.actions.push(Action { node: ni, when: Trigger::AtFrame(0), act: Act::SetDelay { h, d: rr.below(5) as usize } });
                    }
                }
            }
        }
        for f in 1..340 {
            for (ni, ls) in s.peers.clone().iter().enumerate() {
                for &h in ls {
                    if rr.chance(p) {
                        s.actions.push(Action { node: ni, when: Trigger::AtFrame(f), act: Act::SetDelay { h, d: rr.below(7) as usize } });
                        if rr.chance(0.3) {
                            // back-to-back change in the same tick
                            s.actions.push(Action { node: ni, when: Trigger::AtFrame(f), act: Act::SetDelay { h, d: rr.below(7) as usize } });
                        }
                    }
                }
            }
        }
        if rr.chance(0.25) {
            // changes while stalled at the window: starve node 0 for a while
            let a = rr.range(1500, 2500);
            let mut l = s.link.clone();
            l.outages.push(Outage { from_ms: a, to_ms: a + rr.pick(&[300u64, 1000, 3000]), kinds: 0 });
            s.link_overrides.push((peer_addr(1), peer_addr(0), l));
            for j in 0..3 {
                let h = s.peers[0][0];
                s.actions.push(Action { node: 0, when: Trigger::AtMs(a + 200 + j * 150), act: Act::SetDelay { h, d: rr.below(7) as usize } });
            }
        }
        s.settle_ms = 2200;
        out.push(wcase(format!("rand-{i}"), s));
    }
    out
}

fn v(clause: &str, detail: String, node: Addr, t: u64) -> Viol {
    Viol { prop: "C11", clause: clause.into(), detail, t_ms: t.saturating_sub(T0) / MS, node, panic: None }
}

/// Structural legality of the owner's own input sequence for local player h, independent of
/// whether fills are inserted eagerly or lazily: gapless; every value is either a repeat of the
/// previous frame (fill), the default before the first real input, or the submission of a user
/// frame u placed exactly at u + (delay in force when u was submitted); user frames appear in
/// increasing order; without a delay change in between, consecutive submissions occupy consecutive
/// frames (nothing dropped, nothing filled).
fn legal_sequence(w: &Core, owner: &Node, h: usize, lim: i32) -> Result<u64, String> {
    use std::collections::HashMap;
    let pt = &w.truth.players[h];
    let map: HashMap<Inp, (i32, usize, u64)> = pt.subs.iter().map(|(u, v, d, e)| (*v, (*u, *d, *e))).collect();
    let mut prev: Option<(i32, i32, u64)> = None; // (user frame, frame of first use, epoch)
    let mut prev_v: Option<Inp> = None;
    let mut n = 0u64;
    for f in 0..=lim {
        let Some(row) = owner.game.row(f) else { return Err(format!("owner never simulated frame {f}")) };
        let (v, st) = row[h];
        n += 1;
        if st != ggrs::InputStatus::Confirmed {
            return Err(format!("frame {f}: the owner's own input has status {st:?}"));
        }
        match map.get(&v) {
            Some(&(u, d, ep)) => {
                if prev.is_some_and(|p| p.0 == u) {
                    // repeat of the last real input: a fill
                } else {
                    if f != u + d as i32 {
                        return Err(format!("frame {f}: carries the submission of user frame {u}, which was made with delay {d} (expected at frame {})", u + d as i32));
                    }
                    if let Some((pu, pf, pep)) = prev {
                        if u <= pu {
                            return Err(format!("frame {f}: user frame {u} used after user frame {pu}"));
                        }
                        if pep == ep && (u != pu + 1 || f != pf + 1) {
                            return Err(format!("frame {f}: user frames {pu} -> {u} at frames {pf} -> {f} although the delay was not changed in between (dropped or filled without reason)"));
                        }
                    }
                    prev = Some((u, f, ep));
                }
            }
            None => {
                if prev.is_some() || v != Inp::default() {
                    return Err(format!("frame {f}: value {v:?} is neither a submission nor a repeat of the previous input {prev_v:?}"));
                }
            }
        }
        prev_v = Some(v);
    }
    Ok(n)
}

pub fn run_case(c: &WCase) -> Outcome {
    let o = Oracles { c02: true, ..Default::default() };
    let mut out = run_world_case(c, o, "C11", &["C02"], &|w, out| {
        let mut inc = 0;
        let mut dec = 0;
        let mut changes = 0;
        for p in &w.truth.players {
            inc += p.fills_after_increase;
            dec += p.drops_after_decrease;
            changes += p.delay_changes;
        }
        out.count("delay_changes", changes);
        out.count("frames_filled_after_increase_in_reference_model", inc);
        out.count("submissions_dropped_after_decrease_in_reference_model", dec);
        let maxd = w.scn.actions.iter().filter_map(|a| if let Act::SetDelay { d, .. } = a.act { Some(d) } else { None }).max().unwrap_or(0).max(w.scn.delay);
        for n in w.nodes.iter().filter(|n| !n.is_spec) {
            out.count("max_outgoing_local_inputs", n.sizes.outgoing_local_inputs as u64);
        }
        if !w.viols.is_empty() {
            return;
        }
        if left_space_by_disconnect(w) {
            out.inconclusive("a disconnect happened");
            return;
        }
        let players: Vec<&Node> = w.nodes.iter().filter(|n| !n.is_spec).collect();
        // gapless stream: everybody reaches the frame target (bounded progress)
        for n in &players {
            if n.reached_target_at.is_none() {
                let late = w.frames_between(n.idx, w.end_t.saturating_sub(3000 * MS), w.end_t);
                if late < 5 {
                    out.violate(v(
                        "input stream has a gap: a peer stopped advancing after a delay change",
                        format!("node {} at frame {} (confirmed {}, connection status {:?}) advanced {late} frames in the last 3 s; outgoing_local_inputs {}", n.addr, n.game.frame(), n.fin.confirmed_frame, n.fin.cs, n.fin.sizes.outgoing_local_inputs),
                        n.addr,
                        w.end_t,
                    ));
                    return;
                }
                out.inconclusive("slow run cut by the virtual time cap");
                return;
            }
        }
        // identical inputs on the owner, all peers and all spectators (frames settled after an Ok call)
        let lim = players.iter().map(|n| n.conf_max.min(n.game.frame() - 1)).min().unwrap_or(-1);
        let a = players[0];
        for b in &players[1..] {
            for f in 0..=lim {
                let (Some(ra), Some(rb)) = (a.game.row(f), b.game.row(f)) else {
                    out.violate(v("confirmed frame missing from a timeline", format!("frame {f}"), b.addr, w.end_t));
                    return;
                };
                out.count("frames_compared_between_peers", 1);
                for h in 0..w.np {
                    if ra[h].0 != rb[h].0 {
                        let owner = w.scn.owner_of(h);
                        out.violate(v(
                            "owner and peers use different inputs for a player",
                            format!("frame {f} player {h} (owned by node {}): node {} uses {:?}, node {} uses {:?}", peer_addr(owner), a.addr, ra[h], b.addr, rb[h]),
                            b.addr,
                            w.end_t,
                        ));
                        return;
                    }
                }
                if a.game.state(f + 1) != b.game.state(f + 1) {
                    out.violate(v("game states differ", format!("state at frame {}", f + 1), b.addr, w.end_t));
                    return;
                }
            }
        }
        crate::props::c06::compare_with_host_pub(w, out, "C11");
        if !matches!(out.verdict, Verdict::Held) {
            return;
        }
        // the owner's own sequence is gapless and follows the documented delay semantics
        for n in &players {
            for &h in &n.locals {
                match legal_sequence(w, n, h, lim) {
                    Ok(k) => out.count("owner_frames_checked_for_legality", k),
                    Err(e) => {
                        out.violate(v("the owner's input sequence does not follow the delay semantics", format!("player {h} on node {}: {e}", n.addr), n.addr, w.end_t));
                        return;
                    }
                }
            }
        }
        // stranded inputs
        for n in &players {
            if n.sizes.outgoing_local_inputs > maxd + 2 {
                out.violate(v("inputs stranded in the outgoing buffer", format!("node {}: outgoing_local_inputs reached {} (largest delay used {maxd})", n.addr, n.sizes.outgoing_local_inputs), n.addr, w.end_t));
                return;
            }
            let locals = n.locals.len();
            let _ = locals;
        }
        let last_change_frame = w.scn.actions.iter().filter_map(|a| if let (Act::SetDelay { .. }, Trigger::AtFrame(f)) = (&a.act, &a.when) { Some(*f) } else { None }).max().unwrap_or(0);
        out.nontrivial = changes > 0 && (inc > 0 || dec > 0) && lim - last_change_frame >= 50;
        if inc > 0 && dec > 0 {
            out.count("runs_with_fill_and_drop", 1);
        }
    });
    out.sig = mix(out.sig, hash_str(&c.id));
    out
}

pub fn check(ctx: &Ctx) -> i32 {
    let started = Instant::now();
    let cs = filter_cases(ctx, cases(ctx));
    let n_enum = cs.iter().filter(|c| c.id.starts_with("enum")).count();
    let res = par_run(ctx, &cs, &|c: &WCase| c.id.clone(), &run_case);
    let mut extra = Map::new();
    extra.insert("enumerated_subspace".into(), json!({"cases": n_enum, "exhaustive": true, "description": format!("all sequences of <= {} delay values from 0..=6 applied to player 0 of a two-peer session, initial delay {{0,2}}, first change at frame 20/21, gaps between changes {{0 (same tick),1,2,5,12}} frames, windows {{8,2,0,4}}, every third case with a spectator", if ctx.quick() { 2 } else { 3 })}));
    let meta = Meta {
        level: "exploration",
        rule: "bounded-exhaustive short delay sequences (see enumerated_subspace) plus random scenarios: per-tick change probability {0.5 %, 2 %, 10 %} per local player, values 0..=6, back-to-back changes in one tick, per-player initial delays, 1-2 local players per peer, 2-3 peers, with/without a spectator, lossy links, windows {0,1,2,4,8,12}, changes while stalled at the window. Inputs are unique per user frame, so every value identifies the submission it came from. Verdict: no panic, request contract intact; every peer reaches the frame target (no gap in the stream); all peers' settled timelines (frames <= the confirmed frame observed after an Ok call) carry identical inputs for every player and identical states, spectators equal their host; the owner's own sequence for each local player is legal (every frame is the submission of user frame u placed at u + the delay in force when u was submitted, or a repeat of the previous input, or the default before the first input; user frames in increasing order; nothing dropped or filled without a delay change in between); outgoing_local_inputs <= largest delay + 2 at every API boundary. Non-trivial: >=1 change that opened or dropped frames and >=50 frames confirmed after the last change. Distinct: call sequence + configuration + trace hash.".into(),
        assumptions: std_assumptions(),
        floor_nontrivial: if ctx.quick() { 500 } else { 10_000 },
        exhaustive: None,
        extra,
    };
    conclude(ctx, meta, res, started).exit
}
