//! C16 — invalid configurations and API misuse are rejected with errors, never panics.
use crate::base::*;
use crate::fw::*;
use crate::game::Game;
use crate::gen::*;
use crate::net::*;
use crate::scn::*;
use crate::world::*;
use ggrs::verif_hooks as vh;
use ggrs::*;
use serde_json::{json, Map};
use std::cell::RefCell;
use std::collections::BTreeMap;
use std::rc::Rc;
use std::time::Instant;

type C = Cfg<PredictRepeatLast>;

#[derive(Clone, Copy, Debug, PartialEq)]
pub enum BC {
    Num(usize),
    /// player type 0 Local, 1 Remote(a), 2 Remote(b), 3 Spectator(c), 4 Spectator(a); handle
    Add(u8, usize),
    Win(usize),
    Delay(usize),
    Cd(usize),
    Sparse(bool),
    Det(Option<u32>),
    Fps(usize),
    Mfb(usize),
    Cs(usize),
}

pub fn menu() -> Vec<BC> {
    let mut m = vec![];
    for n in 0..=3 {
        m.push(BC::Num(n));
    }
    for t in 0..5u8 {
        for h in 0..=4 {
            m.push(BC::Add(t, h));
        }
    }
    for w in [0, 1, 2, 8, 16] {
        m.push(BC::Win(w));
    }
    for d in [0, 2, 16] {
        m.push(BC::Delay(d));
    }
    for c in [0, 1, 2, 8] {
        m.push(BC::Cd(c));
    }
    m.push(BC::Sparse(true));
    m.push(BC::Det(None));
    m.push(BC::Det(Some(0)));
    m.push(BC::Det(Some(1)));
    m.push(BC::Fps(0));
    m.push(BC::Fps(60));
    for x in [0, 1, 59, 60] {
        m.push(BC::Mfb(x));
    }
    for x in [0, 1, 70] {
        m.push(BC::Cs(x));
    }
    m
}
fn ptype(t: u8) -> PlayerType<Addr> {
    match t {
        0 => PlayerType::Local,
        1 => PlayerType::Remote(10),
        2 => PlayerType::Remote(11),
        3 => PlayerType::Spectator(20),
        _ => PlayerType::Spectator(10),
    }
}

/// Reference validity predicate, written from the rustdoc of SessionBuilder and docs/sessions.md.
/// Returns (index of the first builder call that must fail, whether each start_* must succeed).
pub fn reference(seq: &[BC]) -> (Option<usize>, [bool; 3], bool) {
    let mut np = 2usize;
    let mut handles: BTreeMap<usize, u8> = BTreeMap::new();
    let (mut win, mut cd, mut sparse, mut det) = (8usize, 2usize, false, None::<u32>);
    let mut order_dependent = false;
    for (i, c) in seq.iter().enumerate() {
        let ok = match *c {
            BC::Num(n) => {
                // handles already registered are revalidated against the new player count
                let bad = handles.iter().any(|(&h, &t)| if t < 3 { h >= n } else { h < n });
                if !handles.is_empty() {
                    order_dependent = true;
                }
                if n == 0 || bad {
                    false
                } else {
                    np = n;
                    true
                }
            }
            BC::Add(t, h) => {
                if handles.contains_key(&h) || (if t < 3 { h >= np } else { h < np }) {
                    false
                } else {
                    handles.insert(h, t);
                    true
                }
            }
            BC::Win(w) => {
                win = w;
                true
            }
            BC::Delay(_) => true,
            BC::Cd(x) => {
                cd = x;
                true
            }
            BC::Sparse(b) => {
                sparse = b;
                true
            }
            BC::Det(d) => {
                det = d;
                true
            }
            BC::Fps(f) => f > 0,
            BC::Mfb(x) => (1..60).contains(&x),
            BC::Cs(x) => x >= 1,
        };
        if !ok {
            return (Some(i), [false; 3], order_dependent);
        }
    }
    let p2p_ok = det != Some(0) && (0..np).all(|h| handles.get(&h).is_some_and(|&t| t < 3));
    let sync_ok = cd < win && !sparse;
    (None, [p2p_ok, sync_ok, true], order_dependent)
}

fn apply(seq: &[BC]) -> Result<SessionBuilder<C>, (usize, bool)> {
    let mut b = SessionBuilder::<C>::new();
    for (i, c) in seq.iter().enumerate() {
        let r = match *c {
            BC::Num(n) => b.with_num_players(n),
            BC::Add(t, h) => b.add_player(ptype(t), h),
            BC::Win(w) => Ok(b.with_max_prediction_window(w)),
            BC::Delay(d) => Ok(b.with_input_delay(d)),
            BC::Cd(x) => Ok(b.with_check_distance(x)),
            BC::Sparse(x) => Ok(b.with_sparse_saving_mode(x)),
            BC::Det(d) => Ok(b.with_desync_detection_mode(match d {
                Some(i) => DesyncDetection::On { interval: i },
                None => DesyncDetection::Off,
            })),
            BC::Fps(f) => b.with_fps(f),
            BC::Mfb(x) => b.with_max_frames_behind(x),
            BC::Cs(x) => b.with_catchup_speed(x),
        };
        match r {
            Ok(nb) => b = nb,
            Err(GgrsError::InvalidRequest { .. }) => return Err((i, false)),
            Err(_) => return Err((i, true)),
        }
    }
    Ok(b)
}

fn v(clause: &str, detail: String) -> Viol {
    Viol { prop: "C16", clause: clause.into(), detail, t_ms: 0, node: 0, panic: None }
}

/// One builder sequence against the reference, for all three start methods; accepted sessions are
/// polled and advanced `smoke` times.
fn run_seq(seq: &[BC], smoke: u32, out: &mut Outcome) {
    let (ref_err, ref_start, order_dep) = reference(seq);
    for start in 0..3usize {
        out.count("sequences_x_start_methods", 1);
        if order_dep {
            out.count("order_dependent_sequences", 1);
        }
        let seqv = seq.to_vec();
        let res = guarded(move || -> (Option<(usize, bool)>, Option<bool>, bool, u32) {
            vh::clock_set_nanos(T0);
            let net = Rc::new(RefCell::new(Net::new(1, Link::clean(1))));
            let b = match apply(&seqv) {
                Ok(b) => b,
                Err(e) => return (Some(e), None, false, 0),
            };
            let wrong = |e: &GgrsError| !matches!(e, GgrsError::InvalidRequest { .. });
            match start {
                0 => match b.start_p2p_session(SimSocket { me: 1, net: net.clone() }) {
                    Err(e) => (None, Some(false), wrong(&e), 0),
                    Ok(mut sess) => {
                        let mut g = Game::new();
                        let mut advanced = 0;
                        for t in 0..smoke as u64 {
                            vh::clock_set_nanos(T0 + t * 17 * MS);
                            for h in sess.local_player_handles() {
                                sess.add_local_input(h, Inp(t as u32 + 1)).unwrap();
                            }
                            if let Ok(r) = sess.advance_frame() {
                                g.handle(r, sess.max_prediction() > 0).unwrap();
                                advanced += 1;
                            }
                            sess.poll_remote_clients();
                            let _ = sess.events().count();
                            for h in 0..6 {
                                let _ = sess.network_stats(h);
                            }
                            let _ = (sess.confirmed_frame_checked(), sess.frames_ahead(), sess.current_state());
                        }
                        (None, Some(true), false, advanced)
                    }
                },
                1 => match b.start_synctest_session() {
                    Err(e) => (None, Some(false), wrong(&e), 0),
                    Ok(mut sess) => {
                        let mut g = Game::new();
                        for t in 0..smoke {
                            for h in 0..sess.num_players() {
                                sess.add_local_input(h, Inp(t + 1)).unwrap();
                            }
                            let r = sess.advance_frame().unwrap();
                            g.handle(r, sess.check_distance() > 0).unwrap();
                        }
                        (None, Some(true), false, smoke)
                    }
                },
                _ => {
                    let mut sess = b.start_spectator_session(1, SimSocket { me: 2, net: net.clone() });
                    for t in 0..smoke as u64 {
                        vh::clock_set_nanos(T0 + t * 17 * MS);
                        let _ = sess.advance_frame();
                        sess.poll_remote_clients();
                        let _ = sess.events().count();
                        let _ = sess.network_stats();
                        let _ = (sess.frames_behind_host(), sess.current_frame(), sess.num_players());
                    }
                    (None, Some(true), false, 0)
                }
            }
        });
        let name = ["start_p2p_session", "start_synctest_session", "start_spectator_session"][start];
        match res {
            Err(p) => {
                out.violate(Viol { panic: Some(p.clone()), ..v("panic in a builder call or in a session it returned", format!("calls {seq:?} then {name}: {} at {}", p.msg, p.loc)) });
                return;
            }
            Ok((err_at, started, wrong_kind, advanced)) => {
                let want_started = if ref_err.is_some() { None } else { Some(ref_start[start]) };
                if wrong_kind {
                    out.violate(v("rejected with an error other than InvalidRequest", format!("calls {seq:?} then {name}")));
                    return;
                }
                if err_at.map(|e| e.0) != ref_err || started != want_started {
                    out.violate(v(
                        "builder accepts/rejects differently from its documentation",
                        format!("calls {seq:?} then {name}: builder call failing at index {:?} (documented: {ref_err:?}), session started {started:?} (documented: {want_started:?})", err_at.map(|e| e.0)),
                    ));
                    return;
                }
                match (ref_err, started) {
                    (Some(_), _) => out.count("rejected_at_a_builder_call", 1),
                    (None, Some(false)) => out.count("rejected_at_start", 1),
                    _ => {
                        out.count("accepted_sessions_smoke_run", 1);
                        out.count("frames_advanced_in_smoke_runs", advanced as u64);
                    }
                }
            }
        }
    }
}

trait ConfirmedChecked {
    fn confirmed_frame_checked(&self) -> i32;
}
impl ConfirmedChecked for P2PSession<C> {
    fn confirmed_frame_checked(&self) -> i32 {
        self.confirmed_frame()
    }
}

pub enum Job {
    /// all sequences of exactly `len` calls whose first call has menu index `first`
    Enum { len: usize, first: usize },
    Misuse(Box<Scn>, String),
    SyncTestMisuse(u64),
}
impl Job {
    fn id(&self) -> String {
        match self {
            Job::Enum { len, first } => format!("enum-len{len}-first{first}"),
            Job::Misuse(_, id) => id.clone(),
            Job::SyncTestMisuse(k) => format!("synctest-misuse-{k}"),
        }
    }
}

fn expected_misuse(m: &Misuse, s: &Scn, node: usize, already_disconnected: &[usize]) -> &'static str {
    let np = s.num_players();
    let local = |h: usize| s.peers[node].contains(&h);
    let spectator = |h: usize| h >= np && h < np + s.specs.iter().filter(|sp| sp.host == node).count();
    match m {
        Misuse::InputForHandle(h) => {
            if local(*h) {
                "Ok"
            } else {
                "InvalidRequest"
            }
        }
        Misuse::AdvanceMissingInput => "InvalidRequest(pending=0,running=true)",
        Misuse::AdvancePartialInputs => "InvalidRequest",
        Misuse::DisconnectHandle(h) => {
            if *h < np && !local(*h) && !already_disconnected.contains(h) {
                "Ok"
            } else if spectator(*h) {
                "Ok"
            } else {
                "InvalidRequest"
            }
        }
        Misuse::SetDelayHandle(h, _) => {
            if local(*h) {
                "Ok"
            } else {
                "InvalidRequest"
            }
        }
        Misuse::StatsHandle(h) => {
            if (*h < np && !local(*h)) || spectator(*h) {
                "numbers-or-NotEnoughData"
            } else {
                "InvalidRequest"
            }
        }
    }
}

fn run_misuse(s: &Scn, out: &mut Outcome) {
    let w = run_scn(s, Oracles { c01: true, c02: true, ..Default::default() });
    absorb_obs(out, &w);
    for vv in &w.viols {
        let mut v2 = vv.clone();
        v2.prop = if vv.prop == "PANIC" { "PANIC" } else { "C16" };
        v2.clause = format!("after a misuse call: {}", vv.clause);
        out.violate(v2);
    }
    if !w.viols.is_empty() {
        return;
    }
    // results of the misuse calls
    let mut twin = s.clone();
    let mut drop_idx = vec![];
    let mut rejected_partial = 0;
    let mut disconnected: Vec<usize> = vec![];
    for (ai, a) in s.actions.iter().enumerate() {
        let res = w.nodes[a.node].action_log.iter().find(|(i, _)| *i == ai).map(|x| x.1.clone());
        let Some(res) = res else { continue };
        match &a.act {
            Act::Disconnect { h } => disconnected.push(*h),
            Act::Misuse(m) => {
                let want = expected_misuse(m, s, a.node, &disconnected);
                out.count(&format!("misuse_{}", format!("{m:?}").split('(').next().unwrap_or("")), 1);
                if let Misuse::AdvanceMissingInput = m {
                    if res.starts_with("Ok") || res.contains("pending=1") || res.contains("pending=2") {
                        // inputs of a stalled tick were still pending: this was a legitimate extra call
                        out.inconclusive("the input-less advance_frame was legitimate (inputs of a stalled call were still pending)");
                        return;
                    }
                    let ok = res == want || res == "NotSynchronized(pending=0,running=false)";
                    if !ok {
                        out.violate(v("misuse call did not return the documented error", format!("advance_frame without inputs returned {res}")));
                        return;
                    }
                    twin.actions[ai].act = Act::BarePoll;
                    continue;
                }
                if let Misuse::AdvancePartialInputs = m {
                    if res == "skipped" {
                        // fewer than two local players, not Running, or inputs of a stalled tick pending
                        twin.actions[ai].act = Act::BarePoll;
                        continue;
                    }
                    if res != "InvalidRequest" {
                        out.violate(v("misuse call did not return the documented error", format!("advance_frame with one local input missing returned {res}")));
                        return;
                    }
                    // the rejected call only polled; the inputs it was given stay valid for the retry
                    twin.actions[ai].act = Act::BarePoll;
                    rejected_partial += 1;
                    continue;
                }
                let ok = match want {
                    "numbers-or-NotEnoughData" => res == "Ok" || res == "NotEnoughData" || res == "NotSynchronized",
                    w0 => res == w0,
                };
                if !ok {
                    out.violate(v("misuse call did not return the documented error", format!("{m:?} on node {} returned {res}, documented: {want}", a.node)));
                    return;
                }
                if want == "InvalidRequest" || want == "numbers-or-NotEnoughData" {
                    drop_idx.push(ai);
                } else {
                    // the call was valid after all (e.g. a handle that is local in this topology)
                    out.inconclusive("a scripted misuse turned out to be a valid call");
                    return;
                }
            }
            _ => {}
        }
    }
    for ai in drop_idx.iter().rev() {
        twin.actions.remove(*ai);
    }
    // differential: the same run without the failing calls (a bare poll for a failing advance_frame)
    let t = run_scn(&twin, Oracles::default());
    if !t.viols.is_empty() {
        out.inconclusive("twin run stopped early");
        return;
    }
    for (a, b) in w.nodes.iter().zip(t.nodes.iter()) {
        out.count("differential_lists_compared", a.game.call_hashes.len() as u64);
        let ev = canon_events;
        let first_div = a.game.call_hashes.iter().zip(b.game.call_hashes.iter()).position(|(x, y)| x != y);
        if first_div.is_some() || a.game.call_hashes.len() != b.game.call_hashes.len() || ev(a) != ev(b) || a.errs != b.errs || a.game.st != b.game.st {
            out.violate(v(
                "a rejected call changed the session's behaviour",
                format!(
                    "node {}: first differing request list {first_div:?} (lists {} vs {}), first differing event {:?}, errors {:?} vs {:?}, final state equal {}",
                    a.addr,
                    a.game.call_hashes.len(),
                    b.game.call_hashes.len(),
                    ev(a).iter().zip(ev(b).iter()).find(|(x, y)| x != y).map(|(x, y)| format!("{x:?} vs {y:?}")).unwrap_or_else(|| format!("{} vs {} events", ev(a).len(), ev(b).len())),
                    a.errs,
                    b.errs,
                    a.game.st == b.game.st
                ),
            ));
            return;
        }
    }
    out.count("rejected_advance_with_partial_inputs", rejected_partial);
    out.nontrivial = !drop_idx.is_empty() || twin.actions.iter().any(|a| a.act == Act::BarePoll);
}

fn run_synctest_misuse(k: u64, out: &mut Outcome) {
    let mut r = Rng::new(k);
    let np = r.range(1, 4) as usize;
    let cd = r.range(0, 4) as usize;
    let res = guarded(|| -> Result<(), String> {
        let mut sess = SessionBuilder::<C>::new().with_num_players(np).unwrap().with_check_distance(cd).with_input_delay(r.below(3) as usize).start_synctest_session().map_err(|e| format!("{e:?}"))?;
        let mut g = Game::new();
        for t in 0..120u32 {
            // invalid handle
            match sess.add_local_input(np + r.below(3) as usize, Inp(9)) {
                Err(GgrsError::InvalidRequest { .. }) => {}
                other => return Err(format!("add_local_input for an invalid handle returned {other:?}")),
            }
            // missing input
            if r.chance(0.3) {
                for h in 0..np.saturating_sub(1) {
                    sess.add_local_input(h, Inp(t + 1)).unwrap();
                }
                let before = sess.current_frame();
                match sess.advance_frame() {
                    Err(GgrsError::InvalidRequest { .. }) => {}
                    Ok(l) => {
                        // check_distance rollbacks may legitimately have been issued before the error is
                        // noticed; an Ok result with an input missing is the defect
                        return Err(format!("advance_frame with an input missing returned Ok({} requests)", l.len()));
                    }
                    Err(e) => return Err(format!("advance_frame with an input missing returned {e:?}")),
                }
                let _ = before;
            }
            for h in 0..np {
                sess.add_local_input(h, Inp(t + 1)).unwrap();
            }
            match sess.advance_frame() {
                Ok(l) => g.handle(l, cd > 0).map_err(|e| format!("request contract after a rejected call: {e}"))?,
                Err(e) => return Err(format!("valid advance_frame after a rejected call failed: {e:?}")),
            }
            if g.frame() != sess.current_frame() {
                return Err(format!("after a rejected call: game frame {} != current_frame() {}", g.frame(), sess.current_frame()));
            }
        }
        Ok(())
    });
    out.count("synctest_misuse_runs", 1);
    match res {
        Err(p) => out.violate(Viol { panic: Some(p.clone()), ..v("panic after/in a misuse call on a SyncTestSession", format!("{} at {}", p.msg, p.loc)) }),
        Ok(Err(e)) => out.violate(v("SyncTestSession misuse handling", e)),
        Ok(Ok(())) => out.nontrivial = true,
    }
}

pub fn run_job(j: &Job) -> Outcome {
    let mut out = Outcome::new(json!({"job": j.id()}));
    out.sig = hash_str(&j.id());
    match j {
        Job::Enum { len, first } => {
            let m = menu();
            out.sample = json!({"job": j.id(), "what": format!("all {} sequences of {len} builder calls starting with {:?}, each followed by start_p2p_session / start_synctest_session / start_spectator_session", m.len().pow(len.saturating_sub(1) as u32), m[*first]), "menu_size": m.len()});
            let mut idx = vec![0usize; *len];
            if *len > 0 {
                idx[0] = *first;
            }
            let mut count = 0u64;
            loop {
                let seq: Vec<BC> = idx.iter().map(|&k| m[k]).collect();
                // longer sequences: smoke-run fewer frames
                let smoke = if *len <= 2 { 200 } else if *len == 3 { 40 } else { 12 };
                run_seq(&seq, smoke, &mut out);
                count += 1;
                if !matches!(out.verdict, Verdict::Held) {
                    break;
                }
                // next sequence with the same first element
                let mut i = *len;
                loop {
                    if i <= 1 {
                        out.count("max_sequences_in_a_job", count);
                        out.nontrivial = true;
                        return out;
                    }
                    i -= 1;
                    if idx[i] + 1 < m.len() {
                        idx[i] += 1;
                        for x in idx.iter_mut().skip(i + 1) {
                            *x = 0;
                        }
                        break;
                    }
                }
            }
        }
        Job::Misuse(s, _) => {
            out.sample = json!({"job": j.id(), "scenario": scn_json(s)});
            run_misuse(s, &mut out);
        }
        Job::SyncTestMisuse(k) => run_synctest_misuse(*k, &mut out),
    }
    out
}

pub fn check(ctx: &Ctx) -> i32 {
    let started = Instant::now();
    let m = menu();
    let mut jobs = vec![Job::Enum { len: 0, first: 0 }];
    let maxlen = if ctx.quick() { 3 } else { 4 };
    for len in 1..=maxlen {
        for first in 0..m.len() {
            jobs.push(Job::Enum { len, first });
        }
    }
    // run-time misuse at 5 random points of otherwise valid runs
    let mut r = Rng::new(ctx.seed ^ 0xC16);
    for i in 0..ctx.n(3000, 60_000) {
        let mut rr = r.fork(i as u64);
        let mut s = gen_c01_space(&mut rr, 250);
        s.peers = rr.pick(&[vec![vec![0], vec![1]], vec![vec![0, 1], vec![2]], vec![vec![0], vec![1], vec![2]]]);
        s.link_overrides.clear();
        s.link.outages.clear();
        s.nodes.clear();
        if rr.chance(0.4) {
            s.specs.push(SpecCfg::new(0));
        }
        s.mp = rr.pick(&[0usize, 2, 8]);
        let np = s.num_players();
        let node = if s.peers[0].len() >= 2 && rr.chance(0.7) { 0 } else { rr.below(s.peers.len() as u64) as usize };
        let remote_h = (0..np).find(|h| !s.peers[node].contains(h)).unwrap();
        let local_h = s.peers[node][0];
        let n_acts = 5;
        let mut disconnect_done = false;
        for k in 0..n_acts {
            let when = Trigger::AtFrame(20 + k * 40 + rr.below(30) as i32);
            let m = match rr.below(8) {
                // the redundant disconnect once more, tens of frames after the real one (the first repetition comes in the
                // same frame as the real call)
                _ if disconnect_done && rr.chance(0.6) => Misuse::DisconnectHandle(remote_h),
                0 => Misuse::InputForHandle(rr.pick(&[remote_h, np, np + 5, 99])),
                1 => {
                    if s.peers[node].len() >= 2 {
                        Misuse::AdvancePartialInputs
                    } else {
                        Misuse::AdvanceMissingInput
                    }
                }
                2 => Misuse::DisconnectHandle(rr.pick(&[local_h, np + 7, 99])),
                3 => Misuse::SetDelayHandle(rr.pick(&[remote_h, np, 99]), rr.below(5) as usize),
                4 => Misuse::StatsHandle(rr.pick(&[local_h, np + 7, 99])),
                5 if !disconnect_done && s.peers.len() == 2 && k >= 2 => {
                    // disconnect a remote player for real, then try again
                    disconnect_done = true;
                    s.actions.push(Action { node, when: when.clone(), act: Act::Disconnect { h: remote_h } });
                    Misuse::DisconnectHandle(remote_h)
                }
                _ => Misuse::InputForHandle(99),
            };
            s.actions.push(Action { node, when, act: Act::Misuse(m) });
        }
        // misuse while the session is still synchronising
        if rr.chance(0.5) {
            for _ in 0..2 {
                let when = Trigger::AtMs(rr.range(0, 400));
                let m = match rr.below(5) {
                    0 => Misuse::InputForHandle(rr.pick(&[remote_h, np + 5, 99])),
                    1 => Misuse::AdvanceMissingInput,
                    2 => Misuse::DisconnectHandle(rr.pick(&[local_h, np + 7, 99])),
                    3 => Misuse::SetDelayHandle(rr.pick(&[remote_h, 99]), rr.below(5) as usize),
                    _ => Misuse::StatsHandle(rr.pick(&[local_h, np + 7, 99])),
                };
                s.actions.push(Action { node, when, act: Act::Misuse(m) });
            }
        }
        if disconnect_done {
            // C01 oracle does not apply once a player is dropped; keep the differential only
            s.notify_ms = 20_000;
        }
        jobs.push(Job::Misuse(Box::new(s), format!("misuse-{i}")));
    }
    for k in 0..ctx.n(200, 5000) as u64 {
        jobs.push(Job::SyncTestMisuse(ctx.seed.wrapping_mul(7919).wrapping_add(k)));
    }
    let jobs: Vec<Job> = jobs.into_iter().filter(|j| ctx.only_case.as_ref().is_none_or(|o| *o == j.id())).collect();
    let res = par_run(ctx, &jobs, &|j: &Job| j.id(), &run_job);
    let mut extra = Map::new();
    let total: u64 = (0..=maxlen as u32).map(|l| (m.len() as u64).pow(l)).sum();
    extra.insert("enumerated_subspace".into(), json!({"menu": format!("{:?}", m), "max_length": maxlen, "sequences": total, "start_methods": 3, "exhaustive": true}));
    let meta = Meta {
        level: "exploration",
        rule: format!("bounded-exhaustive: all {total} sequences of <= {maxlen} builder calls from a menu of {} calls over small value domains, each followed by each of the three start_* methods, compared with a reference validity predicate written from the documentation (which builder call fails, whether start succeeds, error kind InvalidRequest); every accepted session is polled/advanced (200/40/12 frames depending on sequence length) on a simulated socket without panicking. Run-time misuse: 5 scripted calls (input for a remote/spectator/unknown handle, advance_frame with all or just one local input missing (the inputs already given must stay valid for the retry), disconnect of a local/unknown/already disconnected player (repeated in the same frame and again tens of frames later), delay change and stats for the wrong player type or unknown handle) at random points of random valid runs (also while the session is still synchronising) must return the documented error, and the run must be identical (request lists, events per address, errors, states of every node) to the twin run in which the failing calls are omitted (a bare poll_remote_clients() replacing a failing advance_frame); the same for SyncTestSession. Non-trivial: enumeration jobs; misuse runs in which at least one call was rejected. Distinct: job.", m.len()),
        assumptions: vec!["the reference predicate encodes the rustdoc of SessionBuilder and docs/sessions.md".into(), "input delay and prediction window within 0..=16".into(), "held on the executions produced, not verified".into()],
        floor_nontrivial: if ctx.quick() { 200 } else { 3000 },
        exhaustive: None,
        extra,
    };
    conclude(ctx, meta, res, started).exit
}
