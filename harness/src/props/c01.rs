//! C01 — every peer's confirmed timeline equals the serial replay of the true inputs.
use crate::base::*;
use crate::fw::*;
use crate::gen::*;
use crate::scn::*;
use crate::world::*;
use serde_json::{json, Map};
use std::time::Instant;

pub struct Case {
    pub id: String,
    pub scn: Scn,
}

pub fn cases(ctx: &Ctx) -> Vec<Case> {
    let mut out = vec![];
    let mut r = Rng::new(ctx.seed ^ 0xC01);
    for i in 0..ctx.n(3000, 150_000) {
        let mut rr = r.fork(i as u64);
        out.push(Case { id: format!("rand-{i}"), scn: gen_c01_space(&mut rr, 600) });
    }
    // long histories: the 128-slot input rings wrap dozens of times
    for i in 0..ctx.n(30, 1500) {
        let mut rr = r.fork(0x1000_0000 + i as u64);
        let frames = if ctx.quick() { 2000 } else { rr.pick(&[2000, 6000]) };
        let mut s = gen_c01_space(&mut rr, frames);
        // keep long runs fast enough to finish: no window-1/100ms combinations
        s.mp = s.mp.max(3);
        s.link.base_ms = s.link.base_ms.min(40);
        out.push(Case { id: format!("long-{i}"), scn: s });
    }
    out
}

pub fn run_case(c: &Case) -> Outcome {
    let o = Oracles { c01: true, ..Default::default() };
    let w = run_scn(&c.scn, o);
    let mut out = Outcome::new(world_desc(&w));
    absorb_obs(&mut out, &w);
    take_viols(&mut out, &w, "C01", &[]);
    // offline cross-check of the oracle itself: all peers pairwise equal up to the minimum confirmed frame
    // (only frames that were validated right after an Ok advance_frame: later arrivals are corrected by the next call)
    let lim = w.nodes.iter().map(|n| n.checked_upto).min().unwrap_or(-1);
    if w.viols.is_empty() && !left_space_by_disconnect(&w) {
        let n0 = &w.nodes[0];
        'outer: for n in &w.nodes[1..] {
            for f in 0..=lim {
                out.count("pairwise_frames_compared", 1);
                let (a, b) = (n0.game.row(f), n.game.row(f));
                let same_inputs = match (a, b) {
                    (Some(a), Some(b)) => a.iter().zip(b.iter()).all(|(x, y)| x.0 == y.0),
                    _ => false,
                };
                if !same_inputs || n0.game.state(f + 1) != n.game.state(f + 1) {
                    out.violate(Viol {
                        prop: "C01",
                        clause: "peers disagree on a mutually confirmed frame".into(),
                        detail: format!("frame {f}: node {} has {:?} / {:?}, node {} has {:?} / {:?}", n0.addr, a, n0.game.state(f + 1), n.addr, b, n.game.state(f + 1)),
                        t_ms: w.end_t.saturating_sub(T0) / MS,
                        node: n.addr,
                        panic: None,
                    });
                    break 'outer;
                }
            }
        }
    }
    if left_space_by_disconnect(&w) {
        out.inconclusive("a disconnect happened: the run left C01's space");
    }
    let st = w.net.borrow().stats.clone();
    let faulty = c.scn.link.is_faulty() || c.scn.link_overrides.iter().any(|l| l.2.is_faulty());
    let deep = w.nodes.iter().any(|n| n.game.c.max_depth >= 2);
    let frames_ok = lim >= 255;
    let net_ok = !faulty || st.dropped_random + st.dropped_outage + st.duplicated + st.delivered_out_of_order > 0;
    out.nontrivial = w.obs.frames_checked_c01 > 0 && deep && frames_ok && net_ok && w.nodes.iter().any(|n| n.game.c.resims > 0);
    out.sig = world_sig(&w);
    if !matches!(out.verdict, Verdict::Held) {
        out.witness = world_witness(&w);
    }
    out
}

pub fn check(ctx: &Ctx) -> i32 {
    let started = Instant::now();
    let cs = cases(ctx);
    let cs: Vec<Case> = cs.into_iter().filter(|c| ctx.only_case.as_ref().is_none_or(|o| *o == c.id)).collect();
    let res = par_run(ctx, &cs, &|c: &Case| c.id.clone(), &run_case);
    let meta = Meta {
        level: "exploration",
        rule: "random scenarios from C01's space (all assignments of 1-2 local players to 2-4 peers, window 1..=12, delay 0..=4, sparse on/off, both predictors, sticky inputs 1/3/10, per-link loss/dup/latency/jitter, outages by message kind, skew, pauses, desync detection on/off; 600-frame and 2000/6000-frame histories). After every Ok advance_frame every newly confirmed frame and every re-simulated confirmed frame is compared with the truth model and the serial replay; afterwards peers are compared pairwise. Non-trivial: >=256 frames confirmed on every peer, >=1 rollback of depth >=2, >=1 re-simulated frame, and on faulty links >=1 packet dropped/duplicated/reordered. Distinct: configuration bucket + hash of request traces and of the per-receiver packet schedule.".into(),
        assumptions: vec![
            "virtual clock hook replaces instant::Instant (verif-hooks feature)".into(),
            "harness game, truth model (15 lines) and simulated network are trusted".into(),
            "held on the executions produced, not verified".into(),
        ],
        floor_nontrivial: if ctx.quick() { 30 } else { 2000 },
        exhaustive: None,
        extra: Map::new(),
    };
    let _ = json!(null);
    conclude(ctx, meta, res, started).exit
}
