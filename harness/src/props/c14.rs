//! C14 — the input codec round-trips every input and decodes total.
use crate::alloc;
use crate::base::*;
use crate::child::*;
use crate::fw::*;
use crate::world::Viol;
use ggrs::verif_hooks as vh;
use serde_json::{json, Map, Value};
use std::collections::BTreeMap;
use std::sync::atomic::Ordering;
use std::time::{Duration, Instant};

pub const REFS: [&[u8]; 3] = [&[], &[0, 0, 0, 0], &[0xFF, 0x5A, 0x00, 0x01]];
/// largest legitimate packet: 129 pending inputs of at most 65535 bytes, each with a 2-byte prefix
pub const LEGIT_MAX: usize = 129 * 65_537;
pub fn alloc_bound(data_len: usize) -> i64 {
    (64 * 1024 + 16 * (data_len + LEGIT_MAX)) as i64
}

fn v(clause: &str, detail: String) -> Viol {
    Viol { prop: "C14", clause: clause.into(), detail, t_ms: 0, node: 0, panic: None }
}
fn hex(b: &[u8]) -> String {
    b.iter().map(|x| format!("{x:02x}")).collect::<Vec<_>>().join("")
}

// ------------------------------------------------------------------------------------------
// worker side (child process, counting allocator on)
// ------------------------------------------------------------------------------------------
pub struct DecodeStats {
    pub classes: BTreeMap<String, u64>,
    pub reached_delta: u64,
    pub max_peak: i64,
    pub max_largest: usize,
    pub viols: Vec<Value>,
    pub n_viols: u64,
}
impl DecodeStats {
    pub fn new() -> Self {
        DecodeStats { classes: BTreeMap::new(), reached_delta: 0, max_peak: 0, max_largest: 0, viols: vec![], n_viols: 0 }
    }
    fn viol(&mut self, clause: &str, reference: &[u8], data: &[u8], detail: String) {
        self.n_viols += 1;
        if self.viols.len() < 12 {
            self.viols.push(json!({"clause": clause, "ref": hex(reference), "data": hex(&data[..data.len().min(64)]), "data_len": data.len(), "detail": detail}));
        }
    }
    /// One monitored decode call.
    pub fn decode_one(&mut self, reference: &[u8], data: &[u8]) {
        let (res, st) = alloc::region(true, || guarded(|| vh::codec_decode(reference, data)));
        self.max_peak = self.max_peak.max(st.peak_live);
        self.max_largest = self.max_largest.max(st.largest);
        match &res {
            Ok(Ok(inputs)) => {
                self.reached_delta += 1;
                let b = match inputs.len() {
                    0 => "ok:0 inputs",
                    1 => "ok:1 input",
                    2..=129 => "ok:2..129 inputs",
                    _ => "ok:>129 inputs",
                };
                *self.classes.entry(b.to_string()).or_default() += 1;
            }
            Ok(Err(e)) => {
                if e.contains("truncated length prefix") || e.contains("truncated input data") {
                    self.reached_delta += 1;
                }
                let key: String = e.chars().map(|c| if c.is_ascii_digit() { '#' } else { c }).collect::<String>().replace("##", "#").replace("##", "#");
                *self.classes.entry(format!("err:{}", key.chars().take(60).collect::<String>())).or_default() += 1;
            }
            Err(p) => {
                let key: String = p.msg.chars().map(|c| if c.is_ascii_digit() { '#' } else { c }).collect::<String>().replace("##", "#").replace("##", "#");
                *self.classes.entry(format!("panic:{}", key.chars().take(60).collect::<String>())).or_default() += 1;
                self.viol("decode panicked", reference, data, format!("{} at {}", p.msg, p.loc));
            }
        }
        drop(res);
        if st.overflow {
            *self.classes.entry("monitor:pointer table overflow".to_string()).or_default() += 1;
        }
        if st.peak_live > alloc_bound(data.len()) {
            self.viol("decode allocated more than a small multiple of a legitimate packet", reference, data, format!("peak live growth {} bytes (bound {}), largest single request {}", st.peak_live, alloc_bound(data.len()), st.largest));
        }
    }
    pub fn to_json(&self) -> Value {
        json!({"classes": self.classes, "reached_delta": self.reached_delta, "max_peak": self.max_peak, "max_largest": self.max_largest, "viols": self.viols, "n_viols": self.n_viols})
    }
}

/// worker: all byte strings of length `len` with index in [from, to) against reference `ref`
pub fn worker_sweep(a: &Value) {
    let len = a["len"].as_u64().unwrap() as usize;
    let reference = REFS[a["ref"].as_u64().unwrap() as usize];
    let (from, to) = (a["from"].as_u64().unwrap(), a["to"].as_u64().unwrap());
    let mut st = DecodeStats::new();
    let mut data = vec![0u8; len];
    for i in from..to {
        alloc::CURRENT_ITEM.store(i, Ordering::Relaxed);
        for (k, d) in data.iter_mut().enumerate() {
            *d = (i >> (8 * k)) as u8;
        }
        st.decode_one(reference, &data);
    }
    let mut j = st.to_json();
    j["done"] = json!(true);
    j["evaluations"] = json!(to - from);
    println!("{j}");
}

fn rand_bytes(r: &mut Rng, n: usize) -> Vec<u8> {
    (0..n).map(|_| r.next() as u8).collect()
}
fn rand_inputs(r: &mut Rng, max_inputs: usize, max_len: usize) -> Vec<Vec<u8>> {
    // a fifth of the sequences sit on the upper boundary of what one packet can carry
    let n = if r.chance(0.2) { max_inputs - r.below(2) as usize } else { r.below(max_inputs as u64 + 1) as usize };
    let style = r.below(4);
    let base_len = r.below(max_len as u64 + 1) as usize;
    let mut prev: Vec<u8> = vec![];
    (0..n)
        .map(|_| {
            let len = match style {
                0 => base_len,
                1 => r.below(max_len as u64 + 1) as usize,
                _ => (base_len as i64 + r.below(3) as i64 - 1).clamp(0, max_len as i64) as usize,
            };
            let v: Vec<u8> = match r.below(5) {
                0 => vec![0; len],
                1 => vec![0xFF; len],
                2 if !prev.is_empty() => {
                    let mut x = prev.clone();
                    x.resize(len, 0);
                    if len > 0 && r.chance(0.5) {
                        let i = r.below(len as u64) as usize;
                        x[i] ^= 1 << r.below(8);
                    }
                    x
                }
                3 => (0..len).map(|_| r.pick(&[0u8, 0, 0xFF, 1, 0x80])).collect(),
                _ => rand_bytes(r, len),
            };
            prev = v.clone();
            v
        })
        .collect()
}
fn varint(mut vv: u64) -> Vec<u8> {
    let mut o = vec![];
    while vv > 127 {
        o.push((vv as u8) | 128);
        vv >>= 7;
    }
    o.push(vv as u8);
    o
}

/// worker: random / mutational / structure-aware hostile strings
pub fn worker_hostile(a: &Value) {
    let seed = a["seed"].as_u64().unwrap();
    let n = a["count"].as_u64().unwrap();
    let from = a["from"].as_u64().unwrap_or(0);
    let mut r = Rng::new(seed);
    let mut st = DecodeStats::new();
    for i in 0..n {
        alloc::CURRENT_ITEM.store(i, Ordering::Relaxed);
        let reference: Vec<u8> = if r.chance(0.5) { REFS[r.below(3) as usize].to_vec() } else { let l = r.below(9) as usize; rand_bytes(&mut r, l) };
        let data: Vec<u8> = alloc::outside(|| match r.below(6) {
            0 => {
                let l = r.below(40) as usize;
                rand_bytes(&mut r, l)
            }
            1 | 2 => {
                // mutate a real encoding
                let inputs = rand_inputs(&mut r, 8, 12);
                let mut e = vh::codec_encode(&reference, &inputs);
                for _ in 0..1 + r.below(3) {
                    match r.below(5) {
                        0 if !e.is_empty() => {
                            let i = r.below(e.len() as u64) as usize;
                            e[i] ^= 1 << r.below(8);
                        }
                        1 if !e.is_empty() => {
                            let k = r.below(e.len() as u64) as usize;
                            e.truncate(k);
                        }
                        2 => {
                            let i = r.below(e.len() as u64 + 1) as usize;
                            e.insert(i, r.next() as u8);
                        }
                        3 => {
                            let other = vh::codec_encode(&reference, &rand_inputs(&mut r, 4, 6));
                            let k = r.below(e.len() as u64 + 1) as usize;
                            e.truncate(k);
                            e.extend(other);
                        }
                        _ => {
                            if !e.is_empty() {
                                let i = r.below(e.len() as u64) as usize;
                                e[i] = r.pick(&[0x80u8, 0xFF, 0x7F, 0x00, 0x81]);
                            }
                        }
                    }
                }
                e
            }
            3 => {
                // varint boundary values as run headers
                let mut e = vec![];
                for _ in 0..1 + r.below(3) {
                    let bits = r.pick(&[6u32, 7, 8, 13, 14, 15, 20, 21, 27, 28, 31, 32, 35, 42, 49, 56, 62, 63]);
                    let base = 1u64 << bits;
                    let val = base.wrapping_add(r.below(5)).wrapping_sub(2);
                    e.extend(varint(val));
                    if r.chance(0.5) {
                        let l = r.below(4) as usize;
                        e.extend(rand_bytes(&mut r, l));
                    }
                }
                e
            }
            4 => {
                // hand-built run-length bombs: declared runs 2^20 .. 2^62
                let run = 1u64 << r.range(20, 62);
                let header = (run << 2) | 1 | if r.chance(0.5) { 2 } else { 0 };
                let mut e = varint(header);
                if r.chance(0.3) {
                    e.extend(varint(((r.below(5)) << 1) | 0));
                }
                e
            }
            _ => {
                // dangling continuation bytes
                let l = 1 + r.below(12) as usize;
                let mut e: Vec<u8> = (0..l).map(|_| 0x80 | (r.next() as u8)).collect();
                if r.chance(0.3) {
                    e.push(r.next() as u8 & 0x7F);
                }
                e
            }
        });
        if i >= from {
            st.decode_one(&reference, &data);
        }
    }
    let mut j = st.to_json();
    j["done"] = json!(true);
    j["evaluations"] = json!(n - from.min(n));
    println!("{j}");
}

// ------------------------------------------------------------------------------------------
// parent side
// ------------------------------------------------------------------------------------------
pub enum Job {
    Sweep { len: usize, rf: usize, from: u64, to: u64 },
    Hostile { seed: u64, count: u64 },
    RoundTripSmall { alphabet: Vec<u8>, max_len: usize, max_seq: usize, shard: usize, shards: usize },
    RoundTripRandom { seed: u64, count: u64, max_inputs: usize, max_len: usize },
    /// the boundary of a legitimate packet: exactly 127/128/129 inputs (the sender pushes the new input before it tests for
    /// more than 128 pending ones, so 129 is the largest packet that is really sent), of minimal, ordinary and maximal size
    RoundTripBoundary { seed: u64 },
    /// very long runs in the run-length layer (run headers of 3, 4 and 5 varint bytes): sequences whose XOR deltas are one
    /// single 0xFF run (every input the bitwise complement of the previous one, 65535 bytes each, so that even the length
    /// prefixes are 0xFF), one single 0x00 run, or one single literal run without any 0x00/0xFF byte
    RoundTripLongRuns,
}
impl Job {
    fn id(&self) -> String {
        match self {
            Job::Sweep { len, rf, from, to } => format!("sweep-len{len}-ref{rf}-{from}-{to}"),
            Job::Hostile { seed, .. } => format!("hostile-{seed}"),
            Job::RoundTripSmall { alphabet, max_len, max_seq, shard, .. } => format!("rt-small-a{}-l{max_len}-s{max_seq}-{shard}", alphabet.len()),
            Job::RoundTripRandom { seed, .. } => format!("rt-random-{seed}"),
            Job::RoundTripBoundary { seed } => format!("rt-boundary-{seed}"),
            Job::RoundTripLongRuns => "rt-long-runs".to_string(),
        }
    }
}

/// Runs a hostile-bytes worker, restarting it after every abort so that the first defect does not
/// mask the rest. Aborts are attributed through the allocator's marker line.
pub fn run_hostile_child(name: &str, mut args: Value, total_items: u64, out: &mut Outcome, prop: &'static str) {
    let mut restarts = 0;
    let range_mode = args.get("from").is_some();
    loop {
        let r = run_child(name, &args, Duration::from_secs(1200));
        let done = r.lines.iter().any(|l| l["done"] == json!(true));
        for l in &r.lines {
            if let Some(cl) = l["classes"].as_object() {
                for (k, n) in cl {
                    out.count(&format!("outcome {k}"), n.as_u64().unwrap_or(0));
                }
            }
            out.count("reached_delta_layer", l["reached_delta"].as_u64().unwrap_or(0));
            out.count("max_peak_live_bytes", l["max_peak"].as_i64().unwrap_or(0).max(0) as u64);
            out.count("max_single_request_bytes", l["max_largest"].as_u64().unwrap_or(0));
            out.count("decodes", l["evaluations"].as_u64().unwrap_or(0));
            for vv in l["viols"].as_array().cloned().unwrap_or_default() {
                out.violate(Viol { prop, clause: vv["clause"].as_str().unwrap_or("").to_string(), detail: format!("decode(ref={}, data={} [{} bytes]): {}", vv["ref"].as_str().unwrap_or(""), vv["data"].as_str().unwrap_or(""), vv["data_len"], vv["detail"].as_str().unwrap_or("")), t_ms: 0, node: 0, panic: None });
            }
            out.count("violating_inputs", l["n_viols"].as_u64().unwrap_or(0));
        }
        if done && r.exit == ExitKind::Ok {
            return;
        }
        match (&r.exit, alloc_cap_marker(&r.stderr)) {
            (ExitKind::Timeout, _) => {
                out.inconclusive("worker hit the wall-clock watchdog");
                return;
            }
            (_, Some((size, item))) => {
                out.count("aborts_by_refused_allocation", 1);
                out.violate(Viol { prop, clause: "decode requested an allocation above the hard cap (process aborted)".into(), detail: format!("worker {name} {args}: item {item} requested {size} bytes in one allocation"), t_ms: 0, node: 0, panic: None });
                restarts += 1;
                if !range_mode || restarts > 200 {
                    return;
                }
                // resume after the offending item (counts of the aborted part are lost)
                args["from"] = json!(item + 1);
                if item + 1 >= args["to"].as_u64().unwrap_or(total_items) {
                    return;
                }
            }
            (e, None) => {
                out.violate(Viol { prop, clause: "worker process died without an allocation marker".into(), detail: format!("worker {name} {args}: exit {e:?}; stderr tail: {}", r.stderr), t_ms: 0, node: 0, panic: None });
                return;
            }
        }
    }
}

fn strings_over(alphabet: &[u8], max_len: usize) -> Vec<Vec<u8>> {
    let mut all: Vec<Vec<u8>> = vec![vec![]];
    let mut layer: Vec<Vec<u8>> = vec![vec![]];
    for _ in 0..max_len {
        let mut next = vec![];
        for s in &layer {
            for a in alphabet {
                let mut t = s.clone();
                t.push(*a);
                next.push(t);
            }
        }
        all.extend(next.iter().cloned());
        layer = next;
    }
    all
}

fn round_trip_one(reference: &[u8], seq: &[Vec<u8>], out: &mut Outcome) -> bool {
    let enc = match guarded(|| vh::codec_encode(reference, seq)) {
        Ok(e) => e,
        Err(p) => {
            out.violate(v("encode panicked", format!("encode(ref={}, {} inputs): {} at {}", hex(reference), seq.len(), p.msg, p.loc)));
            return false;
        }
    };
    let raw: usize = seq.iter().map(|i| i.len() + 2).sum();
    if enc.len() < raw {
        out.count("round_trips_where_the_run_length_layer_compressed", 1);
    }
    if seq.windows(2).any(|w| w[0].len() != w[1].len()) {
        out.count("round_trips_with_length_changes", 1);
    }
    out.count("round_trips", 1);
    out.count("max_encoded_bytes", enc.len() as u64);
    match guarded(|| vh::codec_decode(reference, &enc)) {
        Ok(Ok(d)) if d == seq => true,
        Ok(Ok(d)) => {
            out.violate(v("decode(encode(x)) != x", format!("ref={} inputs={:?} decoded={:?}", hex(reference), seq.iter().map(|i| hex(&i[..i.len().min(16)])).collect::<Vec<_>>(), d.iter().map(|i| hex(&i[..i.len().min(16)])).collect::<Vec<_>>())));
            false
        }
        Ok(Err(e)) => {
            out.violate(v("decode rejected a genuine encoding", format!("ref={} {} inputs of lengths {:?}: {e}", hex(reference), seq.len(), seq.iter().map(|i| i.len()).take(12).collect::<Vec<_>>())));
            false
        }
        Err(p) => {
            out.violate(v("decode panicked on a genuine encoding", format!("ref={} {} inputs: {} at {}", hex(reference), seq.len(), p.msg, p.loc)));
            false
        }
    }
}

pub fn run_job(j: &Job) -> Outcome {
    let mut out = Outcome::new(json!({"job": j.id()}));
    out.sig = hash_str(&j.id());
    match j {
        Job::Sweep { len, rf, from, to } => {
            out.sample = json!({"job": j.id(), "what": format!("every byte string of length {len} with little-endian index in [{from},{to}) decoded against reference {}", hex(REFS[*rf]))});
            run_hostile_child("c14sweep", json!({"len": len, "ref": rf, "from": from, "to": to}), *to, &mut out, "C14");
            out.nontrivial = out.counters.get("reached_delta_layer").copied().unwrap_or(0) > 0 || *len == 0;
        }
        Job::Hostile { seed, count } => {
            out.sample = json!({"job": j.id(), "what": "random bytes, mutated genuine encodings (bit flips, truncation, insertion, splicing), varint-boundary run headers, run-length bombs declaring 2^20..2^62 bytes, dangling continuation bytes"});
            run_hostile_child("c14hostile", json!({"seed": seed, "count": count, "from": 0, "to": count}), *count, &mut out, "C14");
            out.nontrivial = true;
        }
        Job::RoundTripSmall { alphabet, max_len, max_seq, shard, shards } => {
            let strs = strings_over(alphabet, *max_len);
            out.sample = json!({"job": j.id(), "what": format!("all (reference, sequence) pairs: references and inputs over alphabet {} of length 0..={max_len}, sequences of 0..={max_seq} inputs (shard {shard}/{shards})", hex(alphabet))});
            let mut seqs: Vec<Vec<usize>> = vec![vec![]];
            let mut layer: Vec<Vec<usize>> = vec![vec![]];
            for _ in 0..*max_seq {
                let mut next = vec![];
                for s in &layer {
                    for i in 0..strs.len() {
                        let mut t = s.clone();
                        t.push(i);
                        next.push(t);
                    }
                }
                seqs.extend(next.iter().cloned());
                layer = next;
            }
            let mut k = 0usize;
            'outer: for r in &strs {
                for sq in &seqs {
                    k += 1;
                    if k % shards != *shard {
                        continue;
                    }
                    let seq: Vec<Vec<u8>> = sq.iter().map(|i| strs[*i].clone()).collect();
                    if !round_trip_one(r, &seq, &mut out) {
                        break 'outer;
                    }
                }
            }
            out.nontrivial = out.counters.get("round_trips_where_the_run_length_layer_compressed").copied().unwrap_or(0) > 0;
        }
        Job::RoundTripRandom { seed, count, max_inputs, max_len } => {
            let mut r = Rng::new(*seed);
            out.sample = json!({"job": j.id(), "what": format!("{count} random sequences of up to {max_inputs} inputs of up to {max_len} bytes (zero/FF runs, near-copies of the previous input, varying lengths) against random references")});
            for _ in 0..*count {
                let rl = r.pick(&[0usize, 4, *max_len / 2, *max_len, *max_len + 3]);
                let reference = match r.below(3) {
                    0 => vec![0u8; rl],
                    1 => vec![0xFF; rl],
                    _ => rand_bytes(&mut r, rl),
                };
                let seq = rand_inputs(&mut r, *max_inputs, *max_len);
                if !round_trip_one(&reference, &seq, &mut out) {
                    break;
                }
            }
            out.nontrivial = out.counters.get("round_trips_where_the_run_length_layer_compressed").copied().unwrap_or(0) > 0;
        }
        Job::RoundTripLongRuns => {
            out.sample = json!({"job": j.id(), "what": "sequences of 3, 9, 17, 40 and 129 inputs whose deltas form ONE run of the run-length layer: complements of 65535 bytes (a 0xFF run of up to 8.4 MB), alternating 0x11/0x22 fills of 65000 and 30000 bytes (a literal run without 00/FF bytes of up to 8.4 MB), and equal inputs of 0 bytes against an empty reference (a 0x00 run of prefixes)"});
            'lr: for n in [3usize, 9, 17, 40, 129] {
                // one 0xFF run: reference all zero, every input the complement of its predecessor
                let reference = vec![0u8; 65_535];
                let seq: Vec<Vec<u8>> = (0..n).map(|i| vec![if i % 2 == 0 { 0xFFu8 } else { 0x00 }; 65_535]).collect();
                out.count("long_run_round_trips", 1);
                if !round_trip_one(&reference, &seq, &mut out) {
                    break 'lr;
                }
                // one literal run: no delta byte and no prefix byte is 0x00 or 0xFF
                for len in [65_000usize, 30_000] {
                    let reference = vec![0x33u8; len];
                    let seq: Vec<Vec<u8>> = (0..n).map(|i| vec![if i % 2 == 0 { 0x11u8 } else { 0x22 }; len]).collect();
                    out.count("long_run_round_trips", 1);
                    if !round_trip_one(&reference, &seq, &mut out) {
                        break 'lr;
                    }
                }
                // one 0x00 run: empty inputs against an empty reference (only zero prefixes)
                let seq: Vec<Vec<u8>> = (0..n).map(|_| vec![]).collect();
                out.count("long_run_round_trips", 1);
                if !round_trip_one(&[], &seq, &mut out) {
                    break 'lr;
                }
            }
            out.nontrivial = true;
        }
        Job::RoundTripBoundary { seed } => {
            let mut r = Rng::new(*seed);
            out.sample = json!({"job": j.id(), "what": "sequences of exactly 1, 2, 127, 128 and 129 inputs (129 = the largest packet a sender really emits) of 0, 1, 4, 255, 256 and 65535 bytes: all-zero, all-FF, random, and alternating-length inputs, against empty / equal-length / longer references"});
            'outer: for n in [1usize, 2, 127, 128, 129] {
                for len in [0usize, 1, 4, 255, 256, 65_535] {
                    if len == 65_535 && n < 128 && n > 2 {
                        continue;
                    }
                    for style in 0..4 {
                        let seq: Vec<Vec<u8>> = (0..n)
                            .map(|i| match style {
                                0 => vec![0u8; len],
                                1 => vec![0xFF; len],
                                2 => rand_bytes(&mut r, len),
                                _ => rand_bytes(&mut r, if i % 2 == 0 { len } else { len / 2 }),
                            })
                            .collect();
                        let reference = match r.below(3) {
                            0 => vec![],
                            1 => rand_bytes(&mut r, len),
                            _ => vec![0xFF; len + 3],
                        };
                        out.count("boundary_round_trips", 1);
                        if n == 129 {
                            out.count("boundary_round_trips_of_129_inputs", 1);
                        }
                        if !round_trip_one(&reference, &seq, &mut out) {
                            break 'outer;
                        }
                    }
                }
            }
            out.nontrivial = true;
        }
    }
    out
}

pub fn check(ctx: &Ctx) -> i32 {
    let started = Instant::now();
    let mut jobs = vec![];
    // totality, exhaustive: every string of length <= 2 against 3 references
    for rf in 0..3 {
        jobs.push(Job::Sweep { len: 0, rf, from: 0, to: 1 });
        jobs.push(Job::Sweep { len: 1, rf, from: 0, to: 256 });
        for k in 0..4u64 {
            jobs.push(Job::Sweep { len: 2, rf, from: k * 16384, to: (k + 1) * 16384 });
        }
    }
    if !ctx.quick() {
        // every string of length 3 against one reference, 128 shards
        let shard = (1u64 << 24) / 128;
        for k in 0..128u64 {
            jobs.push(Job::Sweep { len: 3, rf: 1, from: k * shard, to: (k + 1) * shard });
        }
    }
    let hostile_jobs = if ctx.quick() { 16 } else { 64 };
    let hostile_count = if ctx.quick() { 100_000 } else { 1_500_000 };
    for k in 0..hostile_jobs {
        jobs.push(Job::Hostile { seed: ctx.seed.wrapping_mul(1000).wrapping_add(k), count: (hostile_count as f64 * ctx.scale) as u64 });
    }
    // round trip, exhaustive small
    let shards = 16;
    for shard in 0..shards {
        jobs.push(Job::RoundTripSmall { alphabet: vec![0x00, 0xFF, 0x5A], max_len: 2, max_seq: 3, shard, shards });
        if !ctx.quick() {
            jobs.push(Job::RoundTripSmall { alphabet: vec![0x00, 0xFF, 0x01, 0x80], max_len: 3, max_seq: 2, shard, shards });
        }
    }
    // round trip, random large
    for k in 0..ctx.n(16, 64) as u64 {
        jobs.push(Job::RoundTripRandom { seed: ctx.seed ^ (0xC14 + k), count: if ctx.quick() { 1500 } else { 15_000 }, max_inputs: 16, max_len: 64 });
        jobs.push(Job::RoundTripRandom { seed: ctx.seed ^ (0xC1400 + k), count: if ctx.quick() { 12 } else { 120 }, max_inputs: 129, max_len: 65_535 });
        jobs.push(Job::RoundTripRandom { seed: ctx.seed ^ (0xC140000 + k), count: if ctx.quick() { 300 } else { 3000 }, max_inputs: 129, max_len: 300 });
    }
    jobs.push(Job::RoundTripBoundary { seed: ctx.seed ^ 0xB0DA });
    jobs.push(Job::RoundTripLongRuns);
    let jobs: Vec<Job> = jobs.into_iter().filter(|j| ctx.only_case.as_ref().is_none_or(|o| *o == j.id())).collect();
    let res = par_run(ctx, &jobs, &|j: &Job| j.id(), &run_job);
    let mut extra = Map::new();
    extra.insert("exhaustive_subspaces".into(), json!({
        "totality": if ctx.quick() { "every byte string of length 0..=2 against 3 references (197 379 decodes)" } else { "every byte string of length 0..=2 against 3 references and every byte string of length 3 against reference 00000000 (16 974 595 decodes)" },
        "round_trip": if ctx.quick() { "alphabet {00,FF,5A}: references and inputs of length 0..=2, sequences of 0..=3 inputs (30 940 pairs)" } else { "alphabet {00,FF,5A} length 0..=2 sequences 0..=3 (30 940 pairs) and alphabet {00,FF,01,80} length 0..=3 sequences 0..=2 (621 435 pairs)" },
        "exhaustive": true}));
    extra.insert("allocation_bound".into(), json!(format!("peak live growth during one decode <= 64 KiB + 16 x (|data| + {LEGIT_MAX}) bytes; a single request above 256 MiB is refused and reported")));
    let meta = Meta {
        level: "exploration",
        rule: "round trip: decode(r, encode(r, seq)) == Ok(seq) for exhaustive small spaces (see exhaustive_subspaces) and random large ones (up to 129 inputs - the largest packet a sender emits - of up to 65535 bytes, a fifth of them with exactly 128 or 129 inputs, plus a boundary job with exactly 1/2/127/128/129 inputs of 0/1/4/255/256/65535 bytes and a long-runs job (3..129 inputs whose deltas form one single 0xFF / 0x00 / literal run of up to 8.4 MB, i.e. run headers of up to 4 varint bytes), zero/FF runs, near-copies, varying lengths, references shorter/longer than the inputs). Totality: decode is run under a counting allocator in child processes on exhaustive small byte strings and on random, mutated-genuine, varint-boundary, run-length-bomb and dangling-continuation strings; any panic, abort, refused allocation or peak live growth above the bound is a violation. Non-trivial: round-trip jobs in which the run-length layer actually compressed; totality jobs in which strings passed the run-length layer and reached the delta layer. Distinct: job (disjoint sub-space or PRNG stream).".into(),
        assumptions: vec!["the codec entry points are reached through the verif-hooks re-export".into(), "peak live growth is measured by the harness's counting allocator (thread-local pointer table)".into(), "held on the inputs tried; exhaustive only where stated".into()],
        floor_nontrivial: if ctx.quick() { 30 } else { 150 },
        exhaustive: None,
        extra,
    };
    conclude(ctx, meta, res, started).exit
}
