//! C05 — transient network faults never wedge a session (bounded-progress restatement, judged
//! against the fault-free twin of the same scenario).
use crate::base::*;
use crate::fw::*;
use crate::gen::*;
use crate::net::*;
use crate::scn::*;
use crate::world::*;
use serde_json::{json, Map};
use std::collections::HashMap;
use std::sync::{Arc, Mutex, OnceLock};
use std::time::Instant;

pub struct Twin {
    pub frame_times: Vec<Vec<(u64, i32)>>,
    pub running_at: Vec<Option<u64>>,
    pub disconnected: bool,
}
static TWINS: OnceLock<Mutex<HashMap<u64, Arc<Twin>>>> = OnceLock::new();

fn fault_free(s: &Scn) -> Scn {
    let mut t = s.clone();
    t.link.outages.clear();
    t.link.faults.clear();
    for l in t.link_overrides.iter_mut() {
        l.2.outages.clear();
        l.2.faults.clear();
    }
    t
}
fn twin_of(s: &Scn, cache: bool) -> Arc<Twin> {
    let t = fault_free(s);
    let key = hash_str(&serde_json::to_string(&t).unwrap());
    let map = TWINS.get_or_init(|| Mutex::new(HashMap::new()));
    if cache {
        if let Some(x) = map.lock().unwrap().get(&key) {
            return x.clone();
        }
    }
    let w = run_scn(&t, Oracles::default());
    let tw = Arc::new(Twin {
        frame_times: w.nodes.iter().map(|n| n.frame_times.clone()).collect(),
        running_at: w.nodes.iter().map(|n| n.running_at).collect(),
        disconnected: left_space_by_disconnect(&w) || !w.viols.is_empty(),
    });
    // only the enumerated family shares twins (one per configuration); random scenarios are unique
    if cache {
        map.lock().unwrap().insert(key, tw.clone());
    }
    tw
}
fn frames_in(ft: &[(u64, i32)], a: u64, b: u64) -> i32 {
    let at = |x: u64| ft.iter().take_while(|(t, _)| *t <= x).last().map(|p| p.1).unwrap_or(0);
    at(b) - at(a)
}

const RUN_MS: u64 = 7000;

fn base_cfg(topo: usize, mp: usize, delay: usize, sparse: bool, seed: u64) -> Scn {
    let mut s = Scn::base(seed);
    match topo {
        0 => s.peers = vec![vec![0], vec![1]],
        1 => {
            s.peers = vec![vec![0]];
            s.specs = vec![SpecCfg::new(0)];
        }
        _ => {
            s.peers = vec![vec![0], vec![1]];
            s.specs = vec![SpecCfg::new(0)];
        }
    }
    s.mp = mp;
    s.delay = delay;
    s.sparse = sparse;
    s.link = Link::clean(10);
    s.frames = 100_000;
    s.limit_ms = RUN_MS;
    s.settle_ms = 0;
    s
}
fn links_of(s: &Scn) -> Vec<(Addr, Addr)> {
    let mut v = vec![];
    for a in 0..s.peers.len() {
        for b in 0..s.peers.len() {
            if a != b {
                v.push((peer_addr(a), peer_addr(b)));
            }
        }
    }
    for (si, sp) in s.specs.iter().enumerate() {
        v.push((peer_addr(sp.host), spec_addr(si)));
        v.push((spec_addr(si), peer_addr(sp.host)));
    }
    v
}
fn with_faults(base: &Scn, links: &[(Addr, Addr)], set: &[(usize, u8, u64, Fault)]) -> Scn {
    let mut s = base.clone();
    for (li, (a, b)) in links.iter().enumerate() {
        let fs: Vec<ScriptFault> = set.iter().filter(|f| f.0 == li).map(|f| ScriptFault { phase: f.1, idx: f.2, what: f.3.clone() }).collect();
        if !fs.is_empty() {
            let mut l = s.link.clone();
            l.faults = fs;
            s.link_overrides.push((*a, *b, l));
        }
    }
    s
}

pub fn cases(ctx: &Ctx) -> Vec<WCase> {
    let mut out = vec![];
    let m: u64 = if ctx.quick() { 6 } else { 12 };
    let m3: u64 = if ctx.quick() { 0 } else { 6 };
    let kinds = [Fault::Drop, Fault::Dup, Fault::Delay(300)];
    // ---- bounded-exhaustive fault placement
    let mut cfg_no = 0u64;
    for topo in 0..3usize {
        for &mp in &[0usize, 1, 2, 8] {
            for &delay in &[0usize, 2] {
                cfg_no += 1;
                let sparse = mp >= 2 && (cfg_no % 2 == 0);
                let base = base_cfg(topo, mp, delay, sparse, ctx.seed.wrapping_mul(31).wrapping_add(cfg_no));
                let links = links_of(&base);
                for phase in [0u8, 1] {
                    // all placements (link, idx)
                    let slots: Vec<(usize, u64)> = (0..links.len()).flat_map(|l| (0..m).map(move |i| (l, i))).collect();
                    let tag = |set: &[(usize, u8, u64, Fault)]| set.iter().map(|f| format!("{}.{}{}", f.0, f.2, match f.3 { Fault::Drop => "x", Fault::Dup => "d", Fault::Delay(_) => "l" })).collect::<Vec<_>>().join("+");
                    for (ai, a) in slots.iter().enumerate() {
                        for ka in &kinds {
                            let set1 = vec![(a.0, phase, a.1, ka.clone())];
                            out.push(wcase(format!("enum-t{topo}w{mp}d{delay}p{phase}-{}", tag(&set1)), with_faults(&base, &links, &set1)));
                            for b in slots.iter().skip(ai + 1) {
                                for kb in &kinds {
                                    let set2 = vec![(a.0, phase, a.1, ka.clone()), (b.0, phase, b.1, kb.clone())];
                                    out.push(wcase(format!("enum-t{topo}w{mp}d{delay}p{phase}-{}", tag(&set2)), with_faults(&base, &links, &set2)));
                                }
                            }
                        }
                    }
                    // triples on a shorter prefix (thorough), drops and delays only
                    let slots3: Vec<(usize, u64)> = (0..links.len()).flat_map(|l| (0..m3).map(move |i| (l, i))).collect();
                    let k3 = [Fault::Drop, Fault::Delay(300)];
                    for i in 0..slots3.len() {
                        for j in i + 1..slots3.len() {
                            for k in j + 1..slots3.len() {
                                for (x, ka) in k3.iter().enumerate() {
                                    for (y, kb) in k3.iter().enumerate() {
                                        // third fault kind chosen to vary with the others (keeps the count manageable)
                                        let kc = &k3[(x + y) % 2];
                                        let set3 = vec![(slots3[i].0, phase, slots3[i].1, ka.clone()), (slots3[j].0, phase, slots3[j].1, kb.clone()), (slots3[k].0, phase, slots3[k].1, kc.clone())];
                                        out.push(wcase(format!("enum3-t{topo}w{mp}d{delay}p{phase}-{}", tag(&set3)), with_faults(&base, &links, &set3)));
                                    }
                                }
                            }
                        }
                    }
                }
            }
        }
    }
    // ---- random burst outages
    let mut r = Rng::new(ctx.seed ^ 0xC05);
    for i in 0..ctx.n(6000, 300_000) {
        let mut rr = r.fork(i as u64);
        let topo = rr.below(5) as usize;
        let mut s = base_cfg(topo.min(2), rr.range(0, 8) as usize, rr.below(5) as usize, rr.chance(0.4), rr.next());
        if topo == 3 {
            s.peers = vec![vec![0], vec![1], vec![2]];
            s.specs.clear();
        }
        if topo == 4 {
            s.peers = vec![vec![0, 1], vec![2]];
            s.specs = vec![SpecCfg::new(1)];
        }
        s.pred = rr.below(2) as u8;
        s.link = Link { drop: rr.pick(&[0.0, 0.0, 0.02]), dup: rr.pick(&[0.0, 0.05]), base_ms: rr.pick(&[0u64, 5, 10, 30, 60]), jitter_ms: rr.pick(&[0u64, 3, 10]), outages: vec![], faults: vec![], stragglers: vec![] };
        for sp in s.specs.iter_mut() {
            sp.catchup = rr.pick(&[1usize, 2, 5]);
            sp.max_behind = rr.pick(&[2usize, 10, 20]);
        }
        let links = links_of(&s);
        let li = rr.below(links.len() as u64) as usize;
        let (a, b) = links[li];
        let to_spec = b >= 100;
        let start = rr.range(1300, 2500);
        let max_len = if to_spec { 800 } else { 1700 };
        let len = rr.pick(&[17u64, 50, 100, 200, 400, 800, 1200, 1700]).min(max_len);
        let kinds: u16 = rr.pick(&[0u16, 0, 1 << K_ACK, 1 << K_INPUT, !(1u16 << K_KEEP) & 0xFF, (1 << K_ACK) | (1 << K_QREP) | (1 << K_QRPL)]);
        let o = Outage { from_ms: start, to_ms: start + len, kinds };
        let mut l = s.link.clone();
        l.outages.push(o.clone());
        s.link_overrides.push((a, b, l));
        if rr.chance(0.4) {
            // both directions
            let len2 = if a >= 100 { len.min(800) } else { len };
            let mut l2 = s.link.clone();
            l2.outages.push(Outage { from_ms: start, to_ms: start + len2, kinds });
            s.link_overrides.push((b, a, l2));
        }
        out.push(wcase(format!("burst-{i}"), s));
    }
    // ---- slow handshakes: an outage that begins when the sessions are created and lasts up to several disconnect
    // timeouts (the timeout only guards a RUNNING connection: "the handshake completes under any loss pattern that
    // eventually lets packets through"), then the link is clean; afterwards the session must come up and run like its twin,
    // without a Disconnected (added after round-6 seed C05)
    for i in 0..ctx.n(900, 40_000) {
        let mut rr = r.fork(0x5105_0000 + i as u64);
        let topo = rr.below(5) as usize;
        let mut s = base_cfg(topo.min(2), rr.range(0, 8) as usize, rr.below(5) as usize, rr.chance(0.4), rr.next());
        if topo == 3 {
            s.peers = vec![vec![0], vec![1], vec![2]];
            s.specs.clear();
        }
        if topo == 4 {
            s.peers = vec![vec![0, 1], vec![2]];
            s.specs = vec![SpecCfg::new(1)];
        }
        s.link = Link { drop: rr.pick(&[0.0, 0.0, 0.02]), dup: rr.pick(&[0.0, 0.05]), base_ms: rr.pick(&[0u64, 5, 10, 30, 60]), jitter_ms: rr.pick(&[0u64, 3, 10]), outages: vec![], faults: vec![], stragglers: vec![] };
        let links = links_of(&s);
        let (a, b) = links[rr.below(links.len() as u64) as usize];
        // around the notify delay (500 ms), around the disconnect timeout (2 s) and far beyond it
        let len = rr.pick(&[300u64, 480, 520, 1000, 1900, 1980, 2020, 2100, 2500, 4000, 9000]) + rr.below(40);
        // all packets, or only the handshake's own messages (requests / replies)
        let mut kinds: u16 = rr.pick(&[0u16, 0, 1 << K_SYNC_REQ, 1 << K_SYNC_REP]);
        // a host that completes its side of the handshake long before its spectator does streams frames the spectator is not
        // ready for; after more than 60 of them the spectator's ring has been overrun (SpectatorTooFarBehind, the documented
        // outcome that C06 covers). On host<->spectator links the outage is therefore total, so that both sides finish together.
        let spec_link = a >= 100 || b >= 100;
        if spec_link {
            kinds = 0;
        }
        let mut l = s.link.clone();
        l.outages.push(Outage { from_ms: 0, to_ms: len, kinds });
        s.link_overrides.push((a, b, l));
        if spec_link || rr.chance(0.5) {
            let mut l2 = s.link.clone();
            l2.outages.push(Outage { from_ms: 0, to_ms: len, kinds });
            s.link_overrides.push((b, a, l2));
        }
        s.limit_ms = len + 5500;
        out.push(wcase(format!("slowhs-{i}"), s));
    }
    out
}

pub fn run_case(c: &WCase) -> Outcome {
    let tw = twin_of(&c.scn, c.id.starts_with("enum"));
    let o = Oracles { c01: true, c06: true, ..Default::default() };
    let mut out = run_world_case(c, o, "C05", &[], &|w, out| {
        // (c) the input stream stays intact: C01 / C06 oracles are part of C05's verdict here
        for v in &w.viols {
            if v.prop == "C01" || v.prop == "C06" {
                let mut v2 = v.clone();
                v2.clause = format!("input stream not intact after the fault: {}", v2.clause);
                out.verdict = Verdict::Held;
                out.violate(v2);
            }
        }
        let st = w.net.borrow().stats.clone();
        let applied = st.dropped_script + st.dropped_outage + st.delayed_script + st.duplicated;
        out.count("faults_applied", applied);
        for (k, n) in st.faults_applied_by_kind.iter().enumerate() {
            if *n > 0 {
                out.count(&format!("faults_on_{}", KIND_NAMES[k]), *n);
            }
        }
        out.count("sync_request_retransmissions", st.sync_retransmissions);
        if applied == 0 || st.last_fault_t == 0 {
            out.count("cases_where_no_fault_took_effect", 1);
            return;
        }
        if tw.disconnected {
            out.inconclusive("the fault-free twin itself saw a disconnect");
            return;
        }
        let heal = st.last_fault_t;
        // (a) no Disconnected event
        for n in &w.nodes {
            if let Some((t, e)) = n.events.iter().find(|(_, e)| matches!(e, Ev::Disconnected { .. })) {
                out.violate(Viol {
                    prop: "C05",
                    clause: "Disconnected event although every fault ended before the disconnect timeout".into(),
                    detail: format!("node {} reported {:?} at t={}ms; last fault took effect at t={}ms", n.addr, e, t.saturating_sub(T0) / MS, heal.saturating_sub(T0) / MS),
                    t_ms: t.saturating_sub(T0) / MS,
                    node: n.addr,
                    panic: None,
                });
                return;
            }
        }
        // (d) handshake completes
        let handshake_fault = w.nodes.iter().any(|n| n.running_at.is_none_or(|r| r > heal));
        for (i, n) in w.nodes.iter().enumerate() {
            let tw_dur = tw.running_at[i].map(|t| t - T0).unwrap_or(0);
            let deadline = heal + 1500 * MS + tw_dur;
            if n.running_at.is_none_or(|r| r > deadline) && w.end_t > deadline {
                out.violate(Viol {
                    prop: "C05",
                    clause: "handshake did not complete after the faults stopped".into(),
                    detail: format!("node {} Running at {:?} ms, last fault at {} ms, fault-free handshake takes {} ms", n.addr, n.running_at.map(|t| (t - T0) / MS), (heal - T0) / MS, tw_dur / MS),
                    t_ms: (w.end_t - T0) / MS,
                    node: n.addr,
                    panic: None,
                });
                return;
            }
        }
        if handshake_fault {
            out.count("cases_with_handshake_faults", 1);
        }
        // (b) progress resumes: compare with the twin over [heal+1.5s, heal+3.5s]
        let (a, b) = (heal + 1500 * MS, heal + 3500 * MS);
        if w.end_t < b {
            out.inconclusive("run ended before the progress window");
            return;
        }
        for (i, n) in w.nodes.iter().enumerate() {
            let got = frames_in(&n.frame_times, a, b);
            let want = frames_in(&tw.frame_times[i], a, b);
            out.count("progress_windows_judged", 1);
            let bucket = if want == 0 { 0 } else { (got * 10 / want.max(1)).clamp(0, 12) };
            out.count(&format!("progress_vs_twin_decile_{bucket:02}"), 1);
            if got < want / 2 - 2 {
                out.violate(Viol {
                    prop: "C05",
                    clause: "session did not resume advancing after the fault ended".into(),
                    detail: format!(
                        "node {} ({}) advanced {got} frames in the 2 s window starting 1.5 s after the last fault (t={} ms); its fault-free twin advanced {want}; frame now {}, errors {:?}",
                        n.addr,
                        if n.is_spec { "spectator" } else { "player" },
                        (heal - T0) / MS,
                        n.game.frame(),
                        n.errs
                    ),
                    t_ms: (w.end_t - T0) / MS,
                    node: n.addr,
                    panic: None,
                });
                return;
            }
            if want < 4 && !n.is_spec {
                out.count("twin_windows_with_almost_no_progress", 1);
            }
        }
        out.nontrivial = true;
    });
    // distinctness: the fault schedule is part of the signature
    out.sig = mix(out.sig, hash_str(&c.id));
    // a wedge that needs no fault at all (twin makes no progress) is reported too
    if matches!(out.verdict, Verdict::Held) && out.nontrivial {
        let (a, b) = (T0 + 3000 * MS, T0 + 6000 * MS);
        for (i, ft) in tw.frame_times.iter().enumerate() {
            if frames_in(ft, a, b) < 3 {
                out.violate(Viol {
                    prop: "C05",
                    clause: "session does not advance even without any fault".into(),
                    detail: format!("fault-free twin: node index {i} advanced {} frames between t=3 s and t=6 s", frames_in(ft, a, b)),
                    t_ms: 6000,
                    node: 0,
                    panic: None,
                });
                break;
            }
        }
    }
    out
}

pub fn check(ctx: &Ctx) -> i32 {
    let started = Instant::now();
    let cs = filter_cases(ctx, cases(ctx));
    let n_enum = cs.iter().filter(|c| c.id.starts_with("enum")).count();
    let res = par_run(ctx, &cs, &|c: &WCase| c.id.clone(), &run_case);
    let mut extra = Map::new();
    extra.insert(
        "enumerated_subspace".into(),
        json!({"cases": n_enum, "exhaustive": true, "description": format!("all sets of <=2 scripted faults (drop / duplicate / delay 300 ms) on the first {} packets of every directed link, separately for the handshake phase and for the phase starting with the first non-handshake packet, for topologies {{two peers, host+spectator, two peers+spectator}} x windows {{0,1,2,8}} x delays {{0,2}}; thorough adds all triples (drop/delay) on the first 6 packets", if ctx.quick() { 6 } else { 12 })}),
    );
    let meta = Meta {
        level: "fault_enumeration",
        rule: "bounded-exhaustive placement of scripted faults (see enumerated_subspace) plus random burst outages (17 ms .. 1.7 s, i.e. below the default 2 s disconnect timeout minus 300 ms; <= 800 ms towards spectators because of the 60-frame ring), on one or both directions of a link, for all packets or one message kind only (InputAck only, Input only, everything but keep-alives, acks+quality), on player and host<->spectator links, plus slow handshakes (an outage of 0.3 .. 9 s - below, around and far above the notify delay and the disconnect timeout - that begins at session creation, all packets or sync requests / replies only), windows 0..=8, delays 0..=4, sparse on/off, 3-peer meshes. Verdict per case: no Disconnected event, no panic; C01/C06 oracles keep holding; all sessions Running within 1.5 s (+ the twin's handshake time) after the last fault; over [T_heal+1.5 s, T_heal+3.5 s] every player and spectator advances at least half as many frames as in the fault-free twin run of the same scenario, minus 2. Non-trivial: at least one fault actually took effect and the progress window was judged. Distinct: fault schedule + configuration + observed trace.".into(),
        assumptions: {
            let mut a = std_assumptions();
            a.push("liveness restated as bounded progress in virtual time against a fault-free twin".into());
            a
        },
        floor_nontrivial: if ctx.quick() { 5000 } else { 100_000 },
        exhaustive: None,
        extra,
    };
    conclude(ctx, meta, res, started).exit
}
