//! C12 — connection lifecycle events are well formed and correctly timed.
use crate::base::*;
use crate::fw::*;
use crate::gen::*;
use crate::net::*;
use crate::scn::*;
use crate::world::*;
use serde_json::Map;
use std::collections::BTreeMap;
use std::time::Instant;

#[derive(Clone, Copy, Debug, PartialEq)]
enum St {
    Unknown,
    Sync(u32),
    Running,
    Interrupted,
    Disconnected,
}

/// Per remote address: Synchronizing(count 1..total-1, +1 each) -> Synchronized -> (Interrupted ->
/// Resumed)* -> [Interrupted] -> [Disconnected] -> nothing. With `suffix_ok` (the user never
/// drained, old events were discarded) only a suffix is visible and is matched as such.
pub fn grammar(events: &[(u64, Ev)], suffix_ok: bool, counts: &mut BTreeMap<String, u64>) -> Result<(), String> {
    let mut st: BTreeMap<Addr, St> = BTreeMap::new();
    // the total announced per address (must not change between the events of one address)
    let mut totals: BTreeMap<Addr, u32> = BTreeMap::new();
    for (t, e) in events {
        let Some(a) = e.addr() else {
            *counts.entry(format!("events_{}", e.kind_name())).or_default() += 1;
            continue;
        };
        *counts.entry(format!("events_{}", e.kind_name())).or_default() += 1;
        let cur = *st.entry(a).or_insert(if suffix_ok { St::Unknown } else { St::Sync(0) });
        if let (St::Unknown, Ev::Synchronizing { total, .. }) = (cur, e) {
            totals.entry(a).or_insert(*total);
        }
        let next = match (cur, e) {
            (St::Unknown, Ev::Synchronizing { count, total, .. }) if *count >= 1 && count < total => St::Sync(*count),
            (St::Unknown, Ev::Synchronized { .. }) => St::Running,
            (St::Unknown, Ev::Interrupted { .. }) => St::Interrupted,
            (St::Unknown, Ev::Resumed { .. }) => St::Running,
            (St::Unknown, Ev::Disconnected { .. }) => St::Disconnected,
            (St::Sync(c), Ev::Synchronizing { count, total, .. }) => {
                let t0 = *totals.entry(a).or_insert(*total);
                if *total != t0 || *total < 2 || *count != c + 1 || *count >= *total {
                    return Err(format!("t={}ms addr {a}: Synchronizing count {count} of {total} after count {c}", (t - T0) / MS));
                }
                St::Sync(*count)
            }
            (St::Sync(c), Ev::Synchronized { .. }) => {
                // total: announced for this address, else (no Synchronizing event for it at all) what the library announces
                // elsewhere in this process
                let need = totals.get(&a).copied().unwrap_or_else(sync_total);
                if need != 0 && c + 1 != need {
                    return Err(format!("t={}ms addr {a}: Synchronized after {c} Synchronizing events (total {need} announced)", (t - T0) / MS));
                }
                St::Running
            }
            (St::Running, Ev::Interrupted { .. }) => St::Interrupted,
            (St::Interrupted, Ev::Resumed { .. }) => St::Running,
            (St::Running, Ev::Disconnected { .. }) | (St::Interrupted, Ev::Disconnected { .. }) => St::Disconnected,
            (s0, e) => return Err(format!("t={}ms addr {a}: {} while the address is in state {s0:?}", (t - T0) / MS, e.kind_name())),
        };
        st.insert(a, next);
    }
    Ok(())
}

fn v(clause: &str, detail: String, node: Addr, t: u64) -> Viol {
    Viol { prop: "C12", clause: clause.into(), detail, t_ms: t.saturating_sub(T0) / MS, node, panic: None }
}

pub fn cases(ctx: &Ctx) -> Vec<WCase> {
    let mut out = vec![];
    let mut r = Rng::new(ctx.seed ^ 0xC12);
    // A. handshake under loss/dup/reorder with stray replies; advance_frame called from the start
    for i in 0..ctx.n(6000, 300_000) {
        let mut rr = r.fork(i as u64);
        let mut s = Scn::base(rr.next());
        s.peers = rr.pick(&[vec![vec![0], vec![1]], vec![vec![0], vec![1], vec![2]], vec![vec![0, 2], vec![1, 3]], vec![vec![0]]]);
        if s.peers.len() == 1 || rr.chance(0.4) {
            s.specs.push(SpecCfg::new(0));
        }
        s.mp = rr.pick(&[0usize, 2, 8]);
        s.delay = rr.below(3) as usize;
        s.frames = 150;
        s.link = Link { drop: rr.pick(&[0.0, 0.1, 0.3, 0.5]), dup: rr.pick(&[0.0, 0.2]), base_ms: rr.pick(&[0u64, 20, 80]), jitter_ms: rr.pick(&[0u64, 30, 120]), outages: vec![], faults: vec![], stragglers: vec![] };
        s.stray_replies = rr.chance(0.6);
        s.notify_ms = 20_000;
        s.timeout_ms = 30_000;
        s.start = Start::AtMs(0);
        s.limit_ms = 25_000;
        out.push(wcase(format!("handshake-{i}"), s));
    }
    // B. silences of every length relative to notify and timeout
    for i in 0..ctx.n(6000, 300_000) {
        let mut rr = r.fork(0x2000_0000 + i as u64);
        let mut s = Scn::base(rr.next());
        s.peers = vec![vec![0], vec![1]];
        let spec = rr.chance(0.4);
        if spec {
            s.specs.push(SpecCfg::new(0));
        }
        s.mp = rr.pick(&[0usize, 2, 8]);
        s.frames = 100_000;
        s.notify_ms = rr.pick(&[100u64, 300, 500]);
        s.timeout_ms = s.notify_ms + rr.pick(&[200u64, 1500]);
        if rr.chance(0.15) {
            // notify delay equal to or above the timeout: the interruption notice may be skipped, the order may not be reversed
            s.timeout_ms = rr.pick(&[300u64, 500]);
            s.notify_ms = s.timeout_ms + rr.pick(&[0u64, 0, 200]);
        }
        s.link = Link { drop: 0.0, dup: 0.0, base_ms: rr.pick(&[0u64, 10, 30]), jitter_ms: rr.pick(&[0u64, 3]), outages: vec![], faults: vec![], stragglers: vec![] };
        let mut outs = vec![];
        let mut t = 1500u64;
        let n_sil = rr.range(2, 5);
        for _ in 0..n_sil {
            let around = if rr.chance(0.5) { s.notify_ms } else { s.timeout_ms };
            let len = if rr.chance(0.7) { (around as i64 - 50 + 5 * rr.below(21) as i64).max(5) as u64 } else { rr.range(20, s.timeout_ms + 400) };
            outs.push(Outage { from_ms: t, to_ms: t + len, kinds: 0 });
            t += len + 900 + rr.below(600);
        }
        let target_spec = spec && rr.chance(0.5);
        let (a, b) = if target_spec { (peer_addr(0), spec_addr(0)) } else { (peer_addr(0), peer_addr(1)) };
        let mut l = s.link.clone();
        l.outages = outs;
        s.link_overrides.push((a, b, l.clone()));
        s.link_overrides.push((b, a, l));
        s.limit_ms = t + 1500;
        s.settle_ms = 0;
        s.keep_log = true;
        out.push(wcase(format!("silence-{i}"), s));
    }
    // C. two connected sessions that merely poll, default timeouts
    for i in 0..ctx.n(200, 6000) {
        let mut rr = r.fork(0x3000_0000 + i as u64);
        let mut s = Scn::base(rr.next());
        s.peers = vec![vec![0], vec![1]];
        if rr.chance(0.3) {
            s.specs.push(SpecCfg::new(0));
        }
        s.frames = 0; // nobody ever advances
        s.link = Link::clean(rr.pick(&[0u64, 20, 50, 100]));
        for _ in 0..2 {
            let cadence_ms = rr.pick(&[1.0f64, 5.0, 16.0, 50.0, 100.0]);
            let mut c = NodeCfg::default();
            c.skew = cadence_ms * 60.0 / 1000.0 - 1.0;
            c.jitter_ms = rr.pick(&[0u64, 2]);
            s.nodes.push(c);
        }
        s.limit_ms = 61_000;
        s.settle_ms = 60_000;
        out.push(wcase(format!("pollonly-{i}"), s));
    }
    // E. a stalled application: one side does not poll at all across the notify delay AND the timeout
    // of a silent peer, so both thresholds are crossed in one poll
    for i in 0..ctx.n(600, 25_000) {
        let mut rr = r.fork(0x5000_0000 + i as u64);
        let mut s = Scn::base(rr.next());
        // two peers only: with three, a sleeping survivor and an awake one cut the dead peer off at different frames,
        // which is the open finding F3 of C10 (a panic), not an ordering matter
        s.peers = rr.pick(&[vec![vec![0], vec![1]], vec![vec![0, 1], vec![2]], vec![vec![0], vec![1, 2]]]);
        if rr.chance(0.3) {
            s.specs.push(SpecCfg::new(0));
        }
        s.mp = rr.pick(&[0usize, 2, 8]);
        s.frames = 100_000;
        s.notify_ms = rr.pick(&[300u64, 500]);
        s.timeout_ms = s.notify_ms + rr.pick(&[200u64, 1500]);
        s.link = Link::clean(rr.pick(&[0u64, 10]));
        // the last peer dies; node 0 sleeps from shortly after the death until after the timeout
        let victim = s.peers.len() - 1;
        let at = rr.range(1500, 2500);
        s.kill = Some(Kill { node: victim, at_ms: at, pdrop: 1.0 });
        let sleep_from = at + rr.range(20, s.notify_ms - 50);
        let sleep_to = at + s.timeout_ms + rr.range(50, 800);
        for k in 0..s.peers.len() {
            let mut c = NodeCfg::default();
            if k == 0 {
                c.pauses.push((sleep_from, sleep_to));
            }
            s.nodes.push(c);
        }
        if let Some(sp) = s.specs.get_mut(0) {
            if rr.chance(0.5) {
                // the spectator of a host that goes to sleep is itself a stalled observer of that host
                sp.pauses.push((sleep_from + 100, sleep_to + 2500));
            }
        }
        s.start = Start::AllRunning;
        s.limit_ms = sleep_to + 2500;
        s.settle_ms = 0;
        out.push(wcase(format!("stalledpoller-{i}"), s));
    }
    // F. a spectator that stops polling for a few seconds and then comes back, with a timeout longer than the time the host needs
    // to pile up 128 unacknowledged frames: the host drops it because of the overflow (Disconnected BEFORE the timeout), and
    // afterwards the spectator's packets arrive again: nothing more may be reported for that address
    for i in 0..ctx.n(300, 12_000) {
        let mut rr = r.fork(0x6000_0000 + i as u64);
        let mut s = Scn::base(rr.next());
        s.peers = rr.pick(&[vec![vec![0, 1]], vec![vec![0], vec![1]], vec![vec![0], vec![1]]]);
        s.mp = rr.pick(&[2usize, 8]);
        s.fps = rr.pick(&[60usize, 120]);
        s.frames = 100_000;
        s.notify_ms = rr.pick(&[300u64, 500]);
        s.timeout_ms = rr.pick(&[5000u64, 8000]);
        s.link = Link::clean(rr.pick(&[0u64, 10]));
        let mut sp = SpecCfg::new(0);
        let a = rr.range(1500, 2500);
        // 128 frames take 2.14 s at 60 fps, 1.07 s at 120 fps
        let silent = rr.range(2400, 4300);
        if i % 2 == 0 {
            sp.pauses.push((a, a + silent));
        } else {
            // variant: the spectator stays alive but its ACKS never arrive any more and the rest of its packets get through
            // only in short openings of a flapping link (closed 120 ms, open 20 ms; notify delay 100 ms): the host sees
            // Interrupted/Resumed cycles, drops the spectator by overflow at some tick, and an opening may follow at once
            s.notify_ms = 100;
            let mut l = s.link.clone();
            l.outages.push(Outage { from_ms: a, to_ms: 1_000_000, kinds: 1 << K_ACK });
            let mut t = a;
            while t < a + silent + 3000 {
                l.outages.push(Outage { from_ms: t, to_ms: t + 120, kinds: 0 });
                t += 140;
            }
            s.link_overrides.push((spec_addr(0), peer_addr(0), l));
        }
        s.specs.push(sp);
        // the remote player's inputs arrive in bursts, so that the host's confirmed frame jumps and several frames are
        // forwarded to the spectator by one advance_frame call
        if s.peers.len() == 2 {
            let mut l = s.link.clone();
            let mut t = 1000;
            while t < a + silent + 3000 {
                l.outages.push(Outage { from_ms: t, to_ms: t + 50, kinds: 1 << K_INPUT });
                t += 170;
            }
            s.link_overrides.push((peer_addr(1), peer_addr(0), l));
        }
        for _ in 0..s.peers.len() {
            s.nodes.push(NodeCfg::default());
        }
        s.start = Start::AllRunning;
        s.limit_ms = a + silent + 3000;
        s.settle_ms = 0;
        out.push(wcase(format!("specoverflow-{i}"), s));
    }
    // D. the user never drains events: floods of Interrupted/Resumed, WaitRecommendation, DesyncDetected
    for i in 0..ctx.n(120, 4000) {
        let mut rr = r.fork(0x4000_0000 + i as u64);
        let mut s = Scn::base(rr.next());
        s.peers = rr.pick(&[vec![vec![0], vec![1]], vec![vec![0], vec![1], vec![2]]]);
        if rr.chance(0.3) {
            let mut sp = SpecCfg::new(0);
            sp.drain = false;
            s.specs.push(sp);
        }
        s.mp = rr.pick(&[2usize, 8]);
        s.frames = if ctx.quick() { 3000 } else { rr.pick(&[3000, 10_000]) };
        s.desync = if rr.chance(0.6) { Some(1) } else { None };
        s.notify_ms = 100;
        s.timeout_ms = 120_000;
        let mut outs = vec![];
        let mut t = 1200;
        while t < 200_000 {
            outs.push(Outage { from_ms: t, to_ms: t + 150, kinds: 0 });
            t += 400;
        }
        s.link = Link { drop: 0.0, dup: 0.0, base_ms: 5, jitter_ms: 0, outages: outs, faults: vec![], stragglers: vec![] };
        for k in 0..s.peers.len() {
            let mut c = NodeCfg::default();
            c.drain = false;
            c.skew = if k == 0 { 0.0 } else { rr.pick(&[0.0, 0.05, 0.1]) };
            s.nodes.push(c);
        }
        if rr.chance(0.5) && s.desync.is_some() {
            s.diverge = Some((0, 50));
        }
        out.push(wcase(format!("nodrain-{i}"), s));
    }
    // D2. never drained, queue already full of interruptions, and then a remote DIES: the Disconnected event is the last
    // thing a poll handles; half of the survivors only poll (a paused game) across the timeout, the others poll 1-4 times per
    // tick, so the queue is read right after bare polls too (round-7 seed C12)
    for i in 0..ctx.n(80, 2500) {
        let mut rr = r.fork(0x4400_0000 + i as u64);
        let mut s = Scn::base(rr.next());
        // (two peers only: with three, the survivors of a death run into the open finding F3 of C10)
        s.peers = rr.pick(&[vec![vec![0], vec![1]], vec![vec![0, 2], vec![1]], vec![vec![0], vec![1, 2]]]);
        s.mp = rr.pick(&[2usize, 8]);
        s.frames = 3000;
        s.notify_ms = 100;
        s.timeout_ms = rr.pick(&[600u64, 1500]);
        let mut outs = vec![];
        let mut t = 1200;
        while t < 200_000 {
            outs.push(Outage { from_ms: t, to_ms: t + 150, kinds: 0 });
            t += 400;
        }
        s.link = Link { drop: 0.0, dup: 0.0, base_ms: 5, jitter_ms: 0, outages: outs, faults: vec![], stragglers: vec![] };
        let at = rr.range(23_000, 30_000);
        s.kill = Some(Kill { node: 1, at_ms: at, pdrop: rr.pick(&[0.0, 1.0]) });
        for k in 0..s.peers.len() {
            let mut c = NodeCfg::default();
            c.drain = false;
            c.polls_per_tick = rr.pick(&[1u64, 2, 4]);
            if k == 0 && rr.chance(0.5) {
                c.poll_only.push((at + rr.range(0, s.timeout_ms), at + s.timeout_ms + rr.range(200, 1500)));
            }
            s.nodes.push(c);
        }
        s.start = Start::AllRunning;
        out.push(wcase(format!("nodrain-death-{i}"), s));
    }
    out
}

/// Timing of Interrupted / Resumed / Disconnected against the gaps between deliveries (family B).
fn check_silences(w: &Core, out: &mut Outcome) {
    let s = &w.scn;
    let (notify, timeout) = (s.notify_ms * MS, s.timeout_ms * MS);
    let net = w.net.borrow();
    let Some(log) = &net.log else { return };
    for n in &w.nodes {
        let period_ms = (n.period / MS) + 1;
        let slack = (period_ms + n.cfg.jitter_ms + 2) * MS;
        let remotes: Vec<Addr> = {
            let mut v: Vec<Addr> = n.events.iter().filter_map(|(_, e)| e.addr()).collect();
            v.sort();
            v.dedup();
            v
        };
        for b in remotes {
            let Some(t_sync) = n.events.iter().find(|(_, e)| matches!(e, Ev::Synchronized { addr } if *addr == b)).map(|x| x.0) else { continue };
            let mut del: Vec<u64> = log.iter().filter(|e| e.what == "deliver" && e.from == b && e.to == n.addr && e.t >= t_sync).map(|e| e.t).collect();
            del.dedup();
            let evs: Vec<&(u64, Ev)> = n.events.iter().filter(|(t, e)| e.addr() == Some(b) && *t > t_sync).collect();
            let mut disconnected_at: Option<u64> = None;
            for i in 0..del.len() {
                let t0 = del[i];
                let (t1, open_end) = if i + 1 < del.len() { (del[i + 1], false) } else { (w.end_t, true) };
                let gap = t1 - t0;
                if gap <= 40 * MS {
                    continue;
                }
                if disconnected_at.is_some() {
                    break;
                }
                out.count("silences_judged", 1);
                let inside: Vec<&&(u64, Ev)> = evs.iter().filter(|(t, _)| *t > t0 && *t < t1 + if open_end { 1 } else { 0 }).collect();
                let ints: Vec<u64> = inside.iter().filter(|(_, e)| matches!(e, Ev::Interrupted { .. })).map(|x| x.0).collect();
                let discs: Vec<u64> = inside.iter().filter(|(_, e)| matches!(e, Ev::Disconnected { .. })).map(|x| x.0).collect();
                let ctxs = format!("node {} remote {b}: silence of {} ms starting at t={} ms (notify {} ms, timeout {} ms)", n.addr, gap / MS, (t0 - T0) / MS, s.notify_ms, s.timeout_ms);
                // NetworkInterrupted
                if notify < timeout {
                    if gap <= notify && !ints.is_empty() {
                        out.violate(v("NetworkInterrupted although the silence was shorter than the notify delay", ctxs, n.addr, ints[0]));
                        return;
                    }
                    if gap > notify + slack {
                        out.count("silences_requiring_interrupted", 1);
                        if ints.len() != 1 {
                            out.violate(v("NetworkInterrupted not raised exactly once for a silence longer than the notify delay", format!("{ctxs}: {} NetworkInterrupted events", ints.len()), n.addr, t0));
                            return;
                        }
                        let lag = ints[0] as i64 - (t0 + notify) as i64;
                        if lag < 0 || lag > slack as i64 {
                            out.violate(v("NetworkInterrupted at the wrong time", format!("{ctxs}: raised {} ms after the last packet", (ints[0] - t0) / MS), n.addr, ints[0]));
                            return;
                        }
                        if let Some((_, Ev::Interrupted { timeout: to, .. })) = inside.iter().find(|(_, e)| matches!(e, Ev::Interrupted { .. })).map(|x| **x) {
                            if *to != (s.timeout_ms - s.notify_ms) as u128 {
                                out.violate(v("NetworkInterrupted carries the wrong remaining time", format!("{ctxs}: field {to}"), n.addr, ints[0]));
                                return;
                            }
                        }
                    }
                }
                // Disconnected
                if gap <= timeout && !discs.is_empty() {
                    out.violate(v("Disconnected although the silence was shorter than the disconnect timeout", ctxs, n.addr, discs[0]));
                    return;
                }
                if gap > timeout + slack {
                    out.count("silences_requiring_disconnected", 1);
                    if discs.len() != 1 {
                        out.violate(v("Disconnected not raised exactly once for a silence longer than the timeout", format!("{ctxs}: {} Disconnected events", discs.len()), n.addr, t0));
                        return;
                    }
                    let lag = discs[0] as i64 - (t0 + timeout) as i64;
                    if lag < 0 || lag > slack as i64 {
                        out.violate(v("Disconnected at the wrong time", format!("{ctxs}: raised {} ms after the last packet", (discs[0] - t0) / MS), n.addr, discs[0]));
                        return;
                    }
                }
                if !discs.is_empty() {
                    disconnected_at = Some(discs[0]);
                    continue;
                }
                // NetworkResumed with the first packet after the silence
                if !ints.is_empty() && !open_end {
                    out.count("silences_requiring_resumed", 1);
                    let res: Vec<u64> = evs.iter().filter(|(t, e)| matches!(e, Ev::Resumed { .. }) && *t >= t1 && *t <= t1 + slack).map(|x| x.0).collect();
                    if res.first() != Some(&t1) {
                        out.violate(v("NetworkResumed not raised with the first packet after the interruption", format!("{ctxs}: first packet again at t={} ms, NetworkResumed at {:?}", (t1 - T0) / MS, res.iter().map(|t| (t - T0) / MS).collect::<Vec<_>>()), n.addr, t1));
                        return;
                    }
                }
            }
            // nothing after Disconnected
            if let Some(td) = disconnected_at {
                let pos = evs.iter().position(|(t, e)| *t == td && matches!(e, Ev::Disconnected { .. })).unwrap();
                if let Some((t, e)) = evs.get(pos + 1) {
                    out.violate(v(
                        "event reported for an address after its Disconnected",
                        format!("node {} ({}) remote {b}: {} at t={} ms after Disconnected at t={} ms", n.addr, if n.is_spec { "spectator session" } else { "p2p session" }, e.kind_name(), (t - T0) / MS, (td - T0) / MS),
                        n.addr,
                        *t,
                    ));
                    return;
                }
            }
        }
    }
}

pub fn run_case(c: &WCase) -> Outcome {
    let fam = c.id.split('-').next().unwrap_or("");
    let o = Oracles { c12_running: fam == "handshake" || fam == "silence", c12_notsync: fam == "handshake", ..Default::default() };
    run_world_case(c, o, "C12", &[], &|w, out| {
        if !w.viols.is_empty() {
            return;
        }
        out.count("running_vs_handshake_checks", w.obs.running_checks);
        out.count("notsynchronized_checks", w.obs.notsync_checks);
        let st = w.net.borrow().stats.clone();
        out.count("stray_replies_injected", st.stray_replies_injected);
        out.count("sync_request_retransmissions", st.sync_retransmissions);
        let nodrain = fam == "nodrain" || fam == "nodrain-death";
        // grammar on every session's event stream
        let mut counts = BTreeMap::new();
        for n in &w.nodes {
            if let Err(e) = grammar(&n.events, nodrain, &mut counts) {
                out.violate(v("event stream rejected by the lifecycle grammar", format!("node {} ({}): {e}", n.addr, if n.is_spec { "spectator session" } else { "p2p session" }), n.addr, w.end_t));
                return;
            }
        }
        for (k, n) in counts {
            out.count(&k, n);
        }
        // documented bound of the event queue at every API boundary
        for n in &w.nodes {
            out.count("max_event_queue_at_api_boundary", n.sizes.event_queue as u64);
            if n.sizes.event_queue > 100 {
                out.violate(v("event queue exceeds its documented bound of 100", format!("node {} ({}): {} events queued at an API boundary", n.addr, if n.is_spec { "spectator session" } else { "p2p session" }, n.sizes.event_queue), n.addr, w.end_t));
                return;
            }
            if !n.cfg.drain && n.events.len() > 100 {
                out.violate(v("events() returned more than 100 events", format!("node {}: {}", n.addr, n.events.len()), n.addr, w.end_t));
                return;
            }
        }
        match fam {
            "handshake" => {
                let all = w.nodes.iter().all(|n| n.running_at.is_some());
                if !all {
                    if !w.hit_limit {
                        out.inconclusive("run ended before the virtual time cap with a handshake still open");
                    } else if st.dropped_random as f64 > 0.45 * st.sent as f64 {
                        out.inconclusive("handshake still open at the time cap on a link losing half of its packets");
                    } else {
                        out.violate(v("handshake did not complete", format!("running_at {:?} after {} ms", w.nodes.iter().map(|n| n.running_at.map(|t| (t - T0) / MS)).collect::<Vec<_>>(), (w.end_t - T0) / MS), 0, w.end_t));
                    }
                    return;
                }
                out.nontrivial = st.dropped_random > 0 && st.duplicated + st.stray_replies_injected > 0;
            }
            "silence" => {
                check_silences(w, out);
                out.nontrivial = w.any_event(|e| matches!(e, Ev::Resumed { .. }));
            }
            "specoverflow" => {
                let host = &w.nodes[0];
                let sa = spec_addr(0);
                let dropped_early = host.events.iter().any(|(t, e)| matches!(e, Ev::Disconnected { addr } if *addr == sa) && *t < T0 + (1500 + w.scn.timeout_ms) * MS);
                let came_back = match w.scn.specs[0].pauses.first() {
                    Some(p) => w.net.borrow().last_rx.get(&(sa, host.addr)).is_some_and(|t| *t > T0 + p.1 * MS),
                    None => true,
                };
                if dropped_early && came_back {
                    out.count("spectators_dropped_by_overflow_that_came_back", 1);
                }
                out.nontrivial = dropped_early && came_back;
            }
            "stalledpoller" => {
                let n0 = &w.nodes[0];
                let crossed_both_in_one_poll = n0.events.windows(2).any(|p| matches!((&p[0].1, &p[1].1), (Ev::Interrupted { addr: a, .. }, Ev::Disconnected { addr: b }) if a == b) && p[0].0 == p[1].0);
                if crossed_both_in_one_poll {
                    out.count("notify_and_timeout_crossed_in_one_poll", 1);
                }
                out.nontrivial = crossed_both_in_one_poll;
            }
            "pollonly" => {
                if let Some((n, (t, e))) = w.nodes.iter().flat_map(|n| n.events.iter().map(move |x| (n, x))).find(|(_, (_, e))| matches!(e, Ev::Interrupted { .. } | Ev::Disconnected { .. })) {
                    out.violate(v("sessions that merely poll saw an interruption with default timeouts", format!("node {} {:?} at t={} ms; poll periods {:?} ms, latency {} ms", n.addr, e, (t - T0) / MS, w.nodes.iter().map(|n| n.period / MS).collect::<Vec<_>>(), w.scn.link.base_ms), n.addr, *t));
                    return;
                }
                if w.end_t < T0 + 59_000 * MS || w.nodes.iter().any(|n| n.running_at.is_none()) {
                    out.inconclusive("poll-only run did not last 60 s in Running state");
                    return;
                }
                out.count("poll_only_seconds", 60);
                out.nontrivial = true;
            }
            _ => {
                let maxq = w.nodes.iter().map(|n| n.sizes.event_queue).max().unwrap_or(0);
                out.nontrivial = maxq >= 100;
            }
        }
    })
}

pub fn check(ctx: &Ctx) -> i32 {
    let started = Instant::now();
    let cs = filter_cases(ctx, cases(ctx));
    let res = par_run(ctx, &cs, &|c: &WCase| c.id.clone(), &run_case);
    let meta = Meta {
        level: "exploration",
        rule: "four families. (A) handshakes of 1-3 remotes and spectators over links with loss up to 50 %, duplication, reordering jitter and injected stray replies (exact duplicate, corrupted nonce, foreign address after every genuine SyncReply), advance_frame called from the very start: Running must coincide at every tick with 'every remote has 5 matched request/reply round trips' as counted by the harness from the packet log, advance_frame must return NotSynchronized exactly while not Running, the handshake must complete. (B) scripted silences on a player or spectator link with lengths on a 5 ms grid around the notify delay and the timeout (notify {100,300,500} ms, timeout notify+{200,1500} ms): per silence, NetworkInterrupted iff longer than notify (+one tick of slack) at the right time and with the right remaining-time field, NetworkResumed with the first packet after it, Disconnected iff longer than the timeout, nothing after Disconnected. (C) sessions that only poll (cadence 1..100 ms, latency 0..100 ms, default timeouts) for 60 s: no NetworkInterrupted. (E) a stalled application: one side does not poll across both the notify delay and the timeout of a peer that died, so both thresholds are crossed in a single poll (the automaton must still see NetworkInterrupted before Disconnected and nothing after); family (B) also includes notify delays equal to or above the timeout. (F) a spectator that is silent long enough for the host to pile up 128 unacknowledged frames before the (long) timeout, is dropped because of the overflow and then comes back: nothing more may be reported for its address. (D2) like D, and once the queue is full a remote dies (timeout 600/1500 ms) while the survivor polls 1-4 times per tick or only polls across the timeout: the Disconnected event must not push the queue past 100 either. (D) sessions whose user never drains events for 3000-10000 frames with an interruption every 400 ms, speed skew (WaitRecommendation) and diverging games under detection interval 1 (DesyncDetected): queue length <= 100 at every API boundary (hook) and in events(). Every event stream of every family is run through the per-address lifecycle automaton. Non-trivial: (A) >=1 lost and >=1 duplicated/stray handshake packet, (B) >=1 Interrupted/Resumed pair, (C) 60 s completed, (D) the queue reached 100, (E) both events were raised by the same poll. Distinct: configuration + trace hash.".into(),
        assumptions: std_assumptions(),
        floor_nontrivial: if ctx.quick() { 300 } else { 8000 },
        exhaustive: None,
        extra: Map::new(),
    };
    conclude(ctx, meta, res, started).exit
}
