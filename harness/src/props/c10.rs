//! C10 — surviving peers agree on the cut-off of a dropped player.
use crate::base::*;
use crate::fw::*;
use crate::gen::*;
use crate::net::*;
use crate::scn::*;
use crate::world::*;
use ggrs::InputStatus;
use serde_json::Map;
use std::time::Instant;

pub fn gen_mesh_death(r: &mut Rng, frames: i32) -> Scn {
    let mut s = Scn::base(r.next());
    s.peers = r.pick(&[vec![vec![0], vec![1], vec![2]], vec![vec![0], vec![1], vec![2], vec![3]], vec![vec![0, 1], vec![2], vec![3]], vec![vec![0], vec![1, 2], vec![3]]]);
    s.pred = r.below(2) as u8;
    s.mp = r.range(1, 10) as usize;
    s.delay = r.below(4) as usize;
    s.sparse = r.chance(0.5);
    s.sticky = r.pick(&[1u32, 3]);
    s.frames = frames;
    s.notify_ms = r.pick(&[200u64, 500]);
    s.timeout_ms = s.notify_ms + r.pick(&[200u64, 1000, 1500]);
    s.link = Link { drop: r.pick(&[0.0, 0.0, 0.03]), dup: r.pick(&[0.0, 0.1]), base_ms: r.pick(&[0u64, 10, 30, 60]), jitter_ms: r.pick(&[0u64, 5, 20]), outages: vec![], faults: vec![], stragglers: vec![] };
    if s.link.drop > 0.0 {
        // a single lost keep-alive must not time out a live peer
        s.timeout_ms = s.timeout_ms.max(s.notify_ms + 1000);
    }
    // survivors are mutually delayed by different amounts
    let n = s.peers.len();
    for a in 0..n {
        for b in 0..n {
            if a != b && r.chance(0.3) {
                let mut l = s.link.clone();
                l.base_ms = r.pick(&[0u64, 20, 50, 90]);
                s.link_overrides.push((peer_addr(a), peer_addr(b), l));
            }
        }
    }
    let victim = r.below(n as u64) as usize;
    s.kill = Some(Kill { node: victim, at_ms: r.range(1800, 3500), pdrop: r.pick(&[0.0, 0.5, 0.5, 1.0]) });
    // straggling copies: some packets sent around the moment of death arrive once more long after the survivors have
    // timed the dead peer out (a network may duplicate and delay): old gossip then follows newer gossip
    if r.chance(0.3) {
        let at = s.kill.as_ref().unwrap().at_ms;
        let g = Straggler { from_ms: at.saturating_sub(r.range(100, 600)), to_ms: at + r.range(50, 300), every: r.range(1, 4), delay_ms: s.timeout_ms + r.range(50, 1500), hold: false };
        s.link.stragglers.push(g.clone());
        for o in s.link_overrides.iter_mut() {
            o.2.stragglers.push(g.clone());
        }
    }
    // a survivor whose game loop hangs (it keeps polling its session) from shortly before the death until after the
    // others have timed the dead peer out: its inputs then arrive late and make the others roll back to frames at or before
    // the dropped player's last frame AFTER they have marked it as dropped
    if r.chance(0.25) {
        let k = s.kill.clone().unwrap();
        let hang = (k.node + 1 + r.below(n as u64 - 1) as usize) % n;
        let mut cfgs: Vec<NodeCfg> = (0..n).map(|_| NodeCfg::default()).collect();
        cfgs[hang].poll_only.push((k.at_ms.saturating_sub(r.range(30, 300)), k.at_ms + s.timeout_ms + r.range(100, 600)));
        cfgs[hang].polls_per_tick = r.pick(&[1u64, 2]);
        s.nodes = cfgs;
    }
    // a late tail: everything the dying peer sends in its last 20..120 ms is LOST towards all survivors but one and HELD
    // BACK towards that one until after it has dropped the peer (the endpoint of a dropped peer lingers for seconds): all
    // survivors hold the same last frame when they drop it, and one of them then receives frames beyond that cut-off
    // (round-7 seed C10). Derived from the scenario seed so that the other draws stay where they were.
    if (s.seed >> 9) % 6 == 0 {
        let k = s.kill.clone().unwrap();
        let lucky = (k.node + 1 + ((s.seed >> 13) % (n as u64 - 1)) as usize) % n;
        let from = k.at_ms.saturating_sub(20 + (s.seed >> 17) % 100);
        s.kill.as_mut().unwrap().pdrop = 0.0;
        for q in 0..n {
            if q == k.node {
                continue;
            }
            let mut l = s.link_overrides.iter().find(|o| o.0 == peer_addr(k.node) && o.1 == peer_addr(q)).map(|o| o.2.clone()).unwrap_or_else(|| s.link.clone());
            if q == lucky {
                l.stragglers.push(Straggler { from_ms: from, to_ms: k.at_ms + 1, every: 1, delay_ms: s.timeout_ms + 100 + (s.seed >> 23) % 1500, hold: true });
            } else {
                l.outages.push(Outage { from_ms: from, to_ms: k.at_ms + 1, kinds: 0 });
            }
            s.link_overrides.retain(|o| !(o.0 == peer_addr(k.node) && o.1 == peer_addr(q)));
            s.link_overrides.push((peer_addr(k.node), peer_addr(q), l));
        }
    }
    s.start = Start::AllRunning;
    s.settle_ms = 1500;
    s
}

pub fn cases(ctx: &Ctx) -> Vec<WCase> {
    let mut out = vec![];
    let mut r = Rng::new(ctx.seed ^ 0xC10);
    for i in 0..ctx.n(10_000, 500_000) {
        let mut rr = r.fork(i as u64);
        out.push(wcase(format!("mesh-{i}"), gen_mesh_death(&mut rr, 600)));
    }
    out
}

fn v(clause: &str, detail: String, node: Addr, t: u64) -> Viol {
    Viol { prop: "C10", clause: clause.into(), detail, t_ms: t.saturating_sub(T0) / MS, node, panic: None }
}

pub fn run_case(c: &WCase) -> Outcome {
    let o = Oracles { c02: true, ..Default::default() };
    // Online measurement of the "stale gossip" history class: while the run goes on, does a survivor that has dropped the
    // dead player hold, as the newest view some other live peer has sent it, an OLDER last frame of that player than its
    // own? (Measured from what the simulated network handed over. A run that does not end in a panic goes on until all
    // gossip has caught up, so the end-of-run measurement alone would miss it - it did, thorough tier, seed 7.)
    let stale_online: std::cell::RefCell<std::collections::BTreeMap<(Addr, Addr), String>> = Default::default();
    // what the network had handed each survivor of the dead peer's input WHEN THAT SURVIVOR DROPPED IT (a late tail that
    // arrives afterwards must be ignored by the session and does not make the history a split one)
    let held_at_drop: std::cell::RefCell<std::collections::BTreeMap<Addr, i32>> = Default::default();
    let mut hook = |core: &mut Core, _ni: usize, t: u64| {
        let Some(k) = core.scn.kill.clone() else { return };
        if core.killed_at.is_none() {
            return;
        }
        let dead_addr = peer_addr(k.node);
        let h = core.scn.peers[k.node][0];
        let net = core.net.borrow();
        for x in core.nodes.iter().filter(|n| n.alive && !n.is_spec) {
            if !x.fin.cs.get(h).is_some_and(|c| c.0) {
                continue;
            }
            let own = net.max_input_frame_delivered.get(&(dead_addr, x.addr)).copied().unwrap_or(-1);
            held_at_drop.borrow_mut().entry(x.addr).or_insert(own);
            for y in core.nodes.iter().filter(|n| n.alive && !n.is_spec && n.addr != x.addr) {
                if let Some(g) = net.gossip_delivered.get(&(y.addr, x.addr)).and_then(|g| g.get(h)) {
                    if g.1 < own {
                        stale_online.borrow_mut().entry((x.addr, y.addr)).or_insert_with(|| format!("at t={} ms node {} (which has dropped the player) holds frame {own} of it, the newest view of node {} delivered to it is ({}, {})", t.saturating_sub(T0) / MS, x.addr, y.addr, g.0, g.1));
                    }
                }
            }
        }
    };
    run_world_case_hook(c, o, "C10", &["C02"], &mut hook, &|w, out| {
        // a request-contract alarm in this workload is a survivor failing to keep running coherently
        for vv in &w.viols {
            if vv.prop == "C02" {
                out.verdict = Verdict::Held;
                let mut v2 = vv.clone();
                v2.clause = format!("survivor's request list broken after the drop: {}", v2.clause);
                out.violate(v2);
            }
        }
        // a LIVE peer that was timed out by somebody (a lossy link with a short timeout) is a partial
        // partition, not "one peer drops out and the others stay connected to each other"
        {
            let dead_node = w.killed_at.and(w.scn.kill.as_ref().map(|k| k.node));
            let live_handles: Vec<usize> = w.scn.peers.iter().enumerate().filter(|(i, _)| Some(*i) != dead_node).flat_map(|(_, l)| l.iter().copied()).collect();
            if w.nodes.iter().any(|n| !n.is_spec && live_handles.iter().any(|h| n.fin.cs.get(*h).is_some_and(|c| c.0))) {
                out.verdict = Verdict::Held;
                out.inconclusive("a live peer was timed out by another one (partial partition): outside C10's space");
                out.count("runs_with_a_live_peer_timed_out", 1);
                return;
            }
        }
        // ---- measured history class (from what the simulated network handed over, not from the sessions' bookkeeping)
        let stale_gossip: Option<String> = w.scn.kill.as_ref().filter(|_| w.killed_at.is_some()).and_then(|k| {
            let net = w.net.borrow();
            let dead_addr = peer_addr(k.node);
            let h = w.scn.peers[k.node][0];
            let alive: Vec<&Node> = w.nodes.iter().filter(|n| n.alive && !n.is_spec).collect();
            let mut found = vec![];
            for x in &alive {
                let own = net.max_input_frame_delivered.get(&(dead_addr, x.addr)).copied().unwrap_or(-1);
                for y in &alive {
                    if y.addr == x.addr {
                        continue;
                    }
                    if let Some(g) = net.gossip_delivered.get(&(y.addr, x.addr)).and_then(|g| g.get(h)) {
                        if g.1 < own {
                            found.push(format!("node {} holds frame {own} of the dropped player, the newest view of node {} delivered to it is ({}, {})", x.addr, y.addr, g.0, g.1));
                        }
                    }
                }
            }
            found.extend(stale_online.borrow().values().cloned());
            if found.is_empty() { None } else { Some(found.join("; ")) }
        });
        if !w.viols.is_empty() {
            // tag the history class: did the survivors hold different last frames of the dropped player?
            if let Some(k) = &w.scn.kill {
                let dead = &w.scn.peers[k.node];
                // measured from the payloads the simulated network handed over, not from the sessions' own bookkeeping (a
                // survivor that adopted a lower cut-off in a bare poll already shows the adopted value)
                let dead_addr = peer_addr(k.node);
                let ls: Vec<i32> = {
                    let net = w.net.borrow();
                    w.nodes.iter().filter(|n| n.alive && !n.is_spec).map(|n| held_at_drop.borrow().get(&n.addr).copied().unwrap_or_else(|| net.max_input_frame_delivered.get(&(dead_addr, n.addr)).copied().unwrap_or(-1))).collect()
                };
                let views: Vec<Vec<i32>> = w.nodes.iter().filter(|n| n.alive && !n.is_spec).filter_map(|n| n.cs_at_first_disconnect.as_ref().map(|c| dead.iter().map(|h| c[*h].1).collect())).collect();
                let views_differ = views.iter().any(|x| *x != views[0]);
                if w.killed_at.is_some() && (ls.iter().any(|x| *x != ls[0]) || views_differ) {
                    if let Verdict::Violated(vs) = &mut out.verdict {
                        for v in vs.iter_mut() {
                            v.detail = format!("{} [split cut-off: after the death the survivors hold different last frames of the dropped player: {:?}]", v.detail, ls);
                        }
                    }
                    out.nontrivial = true;
                    out.count("scenarios_with_split_cutoff", 1);
                } else if let Some(sg) = &stale_gossip {
                    // same last frame everywhere, but a survivor that stalled early (waiting for a hanging peer) never got to
                    // gossip its final view: the receiver takes the minimum over ALL views, including that stale one
                    if let Verdict::Violated(vs) = &mut out.verdict {
                        for v in vs.iter_mut() {
                            v.detail = format!("{} [stale gossip: all survivors hold the same last frame of the dropped player, but an older view of it was the newest one delivered: {sg}]", v.detail);
                        }
                    }
                    out.nontrivial = true;
                    out.count("scenarios_with_stale_gossip", 1);
                }
            }
            return;
        }
        // ---- offline judgement; whatever it reports is tagged with the measured history class afterwards
        'judge: {
        let s = &w.scn;
        let Some(tk) = w.killed_at else {
            out.inconclusive("nobody was killed");
            break 'judge;
        };
        if w.nodes.iter().any(|n| n.running_at.is_none_or(|t| t > tk)) {
            out.inconclusive("peer killed before every session was Running");
            break 'judge;
        }
        let victim = s.kill.as_ref().unwrap().node;
        let dead_handles = &s.peers[victim];
        let survivors: Vec<&Node> = w.nodes.iter().filter(|n| n.alive && !n.is_spec).collect();
        // survivors must stay connected to each other
        for n in &survivors {
            for (h, cs) in n.fin.cs.iter().enumerate() {
                if cs.0 && !dead_handles.contains(&h) {
                    out.inconclusive("survivors also lost each other (timeout on a lossy link)");
                    break 'judge;
                }
            }
            if !dead_handles.iter().all(|h| n.fin.cs[*h].0) {
                out.inconclusive("a survivor had not yet dropped the dead peer when the run ended");
                break 'judge;
            }
        }
        // differing views at the time of the local disconnect?
        let views: Vec<Vec<i32>> = survivors.iter().map(|n| dead_handles.iter().map(|h| n.cs_at_first_disconnect.as_ref().map(|c| c[*h].1).unwrap_or(-2)).collect()).collect();
        let differing = views.iter().any(|x| *x != views[0]);
        if differing {
            out.count("scenarios_with_split_cutoff", 1);
        }
        let finals: Vec<Vec<i32>> = survivors.iter().map(|n| dead_handles.iter().map(|h| n.fin.cs[*h].1).collect()).collect();
        if views != finals {
            out.count("scenarios_with_adopted_earlier_cutoff", 1);
        }
        // keep advancing: every survivor reached the frame target or advanced in the last 2 s
        for n in &survivors {
            let late = w.frames_between(n.idx, w.end_t.saturating_sub(2500 * MS), w.end_t);
            if n.reached_target_at.is_none() && late < 10 {
                out.violate(v("a survivor stopped advancing", format!("node {} at frame {} advanced {late} frames in the last 2.5 s (target {})", n.addr, n.game.frame(), s.frames), n.addr, w.end_t));
                break 'judge;
            }
        }
        // agreement on every frame that is settled on all survivors
        let lim = survivors.iter().map(|n| n.fin.confirmed_frame.min(n.fin.current_frame - 1)).min().unwrap_or(-1) - s.mp as i32 - 1;
        let a = survivors[0];
        for b in &survivors[1..] {
            for f in 0..=lim {
                let (Some(ra), Some(rb)) = (a.game.row(f), b.game.row(f)) else { continue };
                out.count("survivor_frames_compared", 1);
                for h in 0..w.np {
                    let (da, db) = (ra[h].1 == InputStatus::Disconnected, rb[h].1 == InputStatus::Disconnected);
                    if ra[h].0 != rb[h].0 || da != db {
                        out.violate(v(
                            "survivors use different inputs for a frame",
                            format!("frame {f} player {h}: node {} has {:?}, node {} has {:?}; cut-offs seen at disconnect {:?}, final {:?}", a.addr, ra[h], b.addr, rb[h], views, finals),
                            b.addr,
                            w.end_t,
                        ));
                        break 'judge;
                    }
                }
                if a.game.state(f + 1) != b.game.state(f + 1) {
                    out.violate(v("survivors' game states differ", format!("state at frame {}: node {} {:?}, node {} {:?}", f + 1, a.addr, a.game.state(f + 1), b.addr, b.game.state(f + 1)), b.addr, w.end_t));
                    break 'judge;
                }
            }
        }
        if finals.iter().any(|x| *x != finals[0]) {
            out.violate(v("survivors did not settle on one common last frame", format!("final cut-offs per survivor {:?}", finals), a.addr, w.end_t));
            break 'judge;
        }
        out.nontrivial = differing && lim > 100;
        }
        if let (Verdict::Violated(vs), Some(k)) = (&mut out.verdict, &w.scn.kill) {
            let dead_addr = peer_addr(k.node);
            let ls: Vec<i32> = {
                let net = w.net.borrow();
                w.nodes.iter().filter(|n| n.alive && !n.is_spec).map(|n| held_at_drop.borrow().get(&n.addr).copied().unwrap_or_else(|| net.max_input_frame_delivered.get(&(dead_addr, n.addr)).copied().unwrap_or(-1))).collect()
            };
            let tag = if ls.iter().any(|x| *x != ls[0]) {
                format!(" [split cut-off: after the death the survivors hold different last frames of the dropped player: {ls:?}]")
            } else if let Some(sg) = &stale_gossip {
                format!(" [stale gossip: all survivors hold the same last frame of the dropped player, but an older view of it was the newest one delivered: {sg}]")
            } else {
                " [unsplit history: every survivor holds the same last frame of the dropped player and no older view of it was delivered last]".to_string()
            };
            for v in vs.iter_mut() {
                v.detail.push_str(&tag);
            }
        }
    })
}

pub fn check(ctx: &Ctx) -> i32 {
    let started = Instant::now();
    let cs = filter_cases(ctx, cases(ctx));
    let res = par_run(ctx, &cs, &|c: &WCase| c.id.clone(), &run_case);
    let meta = Meta {
        level: "exploration",
        rule: "meshes of 3 or 4 peers (1+1+1, 1+1+1+1, 2+1+1, 1+2+1 players), windows 1..=10, delays 0..=3, sparse on/off, both predictors, per-link latency/jitter/loss so that survivors are mutually delayed; one peer is killed at a random moment after all sessions are Running and each of its in-flight packets is dropped with probability {0,0.5,1} (every split of its last packets between the survivors). Refuting: a panic in a survivor; a survivor that stops advancing; after the run (>= 1.5 s of settle time) two survivors whose timelines differ in value or Disconnected-ness, or whose states differ, on a frame <= min over survivors of min(confirmed, current-1) - window - 1; differing final cut-offs. Non-trivial: the survivors had received different last frames from the dead peer when they dropped it (the only schedules where the property bites) and > 100 frames were compared. Distinct: configuration + trace hash.".into(),
        assumptions: std_assumptions(),
        floor_nontrivial: if ctx.quick() { 100 } else { 3000 },
        exhaustive: None,
        extra: Map::new(),
    };
    conclude(ctx, meta, res, started).exit
}
