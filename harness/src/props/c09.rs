//! C09 — desync detection raises no false alarm and catches real divergence.
use crate::base::*;
use crate::fw::*;
use crate::gen::*;
use crate::net::*;
use crate::scn::*;
use crate::world::*;
use serde_json::Map;
use std::time::Instant;

pub fn cases(ctx: &Ctx) -> Vec<WCase> {
    let mut out = vec![];
    let mut r = Rng::new(ctx.seed ^ 0xC09);
    // false-alarm half
    for i in 0..ctx.n(8000, 400_000) {
        let mut rr = r.fork(i as u64);
        let mut s = gen_c01_space(&mut rr, 500);
        s.desync = Some(1 + (i as u32 % 12));
        out.push(wcase(format!("noalarm-{i}"), s));
    }
    // detection half
    let n_det = ctx.n(5000, 250_000);
    for i in 0..n_det {
        let mut rr = r.fork(0x2000_0000 + i as u64);
        let mut s = Scn::base(rr.next());
        s.peers = if rr.chance(0.6) { vec![vec![0], vec![1]] } else { rr.pick(&[vec![vec![0], vec![1], vec![2]], vec![vec![0, 1], vec![2]]]) };
        s.mp = rr.pick(&[1usize, 2, 3, 8, 12]);
        s.delay = rr.below(3) as usize;
        s.sparse = false;
        s.pred = rr.below(2) as u8;
        let iv = 1 + (i as u32 % 12);
        s.desync = Some(iv);
        s.frames = 600;
        s.link = Link { drop: rr.pick(&[0.0, 0.0, 0.1]), dup: rr.pick(&[0.0, 0.1]), base_ms: rr.pick(&[0u64, 10, 20, 40]), jitter_ms: rr.pick(&[0u64, 5, 20]), outages: vec![], faults: vec![], stragglers: vec![] };
        s.notify_ms = 20_000;
        s.timeout_ms = 30_000;
        // divergence frame: a grid over 1..300 (thorough: every frame 1..=120 is hit many times)
        let d = if ctx.quick() { 1 + ((i * 7) % 300) as i32 } else { 1 + (i % 120) as i32 };
        let who = rr.below(s.peers.len() as u64) as usize;
        s.diverge = Some((who, d));
        // a third of the scenarios: a one-way hiccup BEFORE the divergence (input packets of one direction held back for a few
        // frames, then arriving in a burst): a peer's confirmed frame then jumps several frames in one call and its own
        // reports trail its confirmed frame from then on
        if rr.chance(0.35) {
            let (a, b) = (peer_addr(0), peer_addr(1));
            let (from, to) = if rr.chance(0.5) { (a, b) } else { (b, a) };
            let mut l = s.link.clone();
            let at = rr.range(1200, 1200 + (d as u64 * 16).min(3000));
            l.outages.push(Outage { from_ms: at, to_ms: at + rr.pick(&[50u64, 80, 120, 200]), kinds: 1 << K_INPUT });
            s.link_overrides.push((from, to, l));
        }
        // a quarter of the scenarios with an interval <= 6 (derived from the seed, no extra draw): every packet one direction sends during
        // 600 ms arrives once more MUCH later - more than the 32 reporting intervals a peer remembers its own checksums for -,
        // so a checksum report for a long-forgotten frame sits among the pending ones when the divergence happens
        // (round-7 seed C09)
        if (s.seed >> 9) % 4 == 0 && iv <= 6 {
            let (a, b) = (peer_addr(0), peer_addr(1));
            let (from, to) = if (s.seed >> 13) & 1 == 0 { (a, b) } else { (b, a) };
            let mut l = s.link_overrides.iter().find(|o| o.0 == from && o.1 == to).map(|o| o.2.clone()).unwrap_or_else(|| s.link.clone());
            let at = 800 + (s.seed >> 17) % 600;
            l.stragglers.push(Straggler { from_ms: at, to_ms: at + 600, every: 1, delay_ms: 33 * iv as u64 * 17 + 200 + (s.seed >> 23) % 600, hold: false });
            // the divergence comes after the late copies have arrived (where the run is long enough for that)
            let arrival_frame = ((at + 600 + l.stragglers.last().unwrap().delay_ms) / 16) as i32 + 10;
            if arrival_frame < 450 {
                s.diverge = Some((who, d.max(arrival_frame)));
            }
            s.link_overrides.retain(|o| !(o.0 == from && o.1 == to));
            s.link_overrides.push((from, to, l));
        }
        out.push(wcase(format!("detect-{i}"), s));
    }
    out
}

fn v(clause: &str, detail: String, node: Addr, t: u64) -> Viol {
    Viol { prop: "C09", clause: clause.into(), detail, t_ms: t.saturating_sub(T0) / MS, node, panic: None }
}

pub fn run_case(c: &WCase) -> Outcome {
    let o = Oracles::default();
    run_world_case(c, o, "C09", &[], &|w, out| {
        if !w.viols.is_empty() {
            return;
        }
        let s = &w.scn;
        let iv = s.desync.unwrap_or(1) as i32;
        let reports = w.net.borrow().checksum_reports;
        out.count("checksum_reports_delivered", reports);
        let desyncs: Vec<(&Node, u64, i32, u128, u128, Addr)> =
            w.nodes.iter().flat_map(|n| n.events.iter().filter_map(move |(t, e)| if let Ev::Desync { frame, local, remote, addr } = e { Some((n, *t, *frame, *local, *remote, *addr)) } else { None })).collect();
        out.count("desync_events", desyncs.len() as u64);
        if left_space_by_disconnect(w) {
            out.inconclusive("a disconnect happened");
            return;
        }
        match s.diverge {
            None => {
                if let Some((n, t, frame, local, remote, addr)) = desyncs.first() {
                    out.violate(v("DesyncDetected although every game is deterministic", format!("node {} reports frame {frame} local {local:#x} remote {remote:#x} against {addr}", n.addr), n.addr, *t));
                    return;
                }
                let rb = w.nodes.iter().map(|n| n.game.c.loads).sum::<u64>();
                out.nontrivial = reports >= 10 && rb > 0;
            }
            Some((who, d)) => {
                let dstar = d + 1;
                let who_addr = peer_addr(who);
                for (n, t, frame, local, remote, addr) in &desyncs {
                    // only pairs involving the diverging peer may differ
                    if n.addr != who_addr && *addr != who_addr {
                        out.violate(v("DesyncDetected between two peers that did not diverge", format!("node {} vs {addr} frame {frame}", n.addr), n.addr, *t));
                        return;
                    }
                    if *frame < dstar {
                        out.violate(v("DesyncDetected for a frame before the divergence", format!("node {} reports frame {frame}, first differing state is frame {dstar}", n.addr), n.addr, *t));
                        return;
                    }
                    let other = w.nodes.iter().find(|m| m.addr == *addr).unwrap();
                    let (lc, rc) = (n.game.checksums.get(frame).copied(), other.game.checksums.get(frame).copied());
                    out.count("event_checksums_compared_with_saved_states", 1);
                    if lc != Some(*local) || rc != Some(*remote) {
                        out.violate(v(
                            "DesyncDetected does not carry the checksums the peers computed",
                            format!("node {} frame {frame}: event local {local:#x} remote {remote:#x}; node saved {lc:#x?}, peer {addr} saved {rc:#x?}", n.addr),
                            n.addr,
                            *t,
                        ));
                        return;
                    }
                }
                // both sides must have been told by the time both confirmed D* + 4 intervals + 2 windows + 20
                let deadline_frame = dstar + 4 * iv + 2 * s.mp as i32 + 20;
                let min_conf = w.nodes.iter().map(|n| n.fin.confirmed_frame).min().unwrap_or(-1);
                if min_conf < deadline_frame + 5 {
                    out.inconclusive("run ended before the detection deadline");
                    return;
                }
                for n in &w.nodes {
                    let involved: Vec<Addr> = if n.addr == who_addr { w.nodes.iter().filter(|m| m.addr != who_addr).map(|m| m.addr).collect() } else { vec![who_addr] };
                    for a in involved {
                        let first = desyncs.iter().filter(|x| x.0.addr == n.addr && x.5 == a).map(|x| x.2).min();
                        match first {
                            None => {
                                out.violate(v("real divergence not reported", format!("node {} never got DesyncDetected against {a}; divergence from frame {d}, interval {iv}, both peers confirmed frame {min_conf}", n.addr), n.addr, w.end_t));
                                return;
                            }
                            Some(f) => {
                                let lag = (f - dstar + iv - 1) / iv;
                                out.count(&format!("first_detected_frame_lag_intervals_{lag:02}"), 1);
                                if f > deadline_frame {
                                    out.violate(v("real divergence reported too late", format!("node {} first DesyncDetected names frame {f}; divergence at {dstar}, interval {iv}", n.addr), n.addr, w.end_t));
                                    return;
                                }
                            }
                        }
                    }
                }
                out.nontrivial = true;
            }
        }
    })
}

pub fn check(ctx: &Ctx) -> i32 {
    let started = Instant::now();
    let cs = filter_cases(ctx, cases(ctx));
    let res = par_run(ctx, &cs, &|c: &WCase| c.id.clone(), &run_case);
    let meta = Meta {
        level: "exploration",
        rule: "false-alarm half: random scenarios of C01's space (all windows, delays, sparse on/off, loss/reorder, skew, pauses) with detection interval 1..=12 and deterministic games: any DesyncDetected is a violation. Detection half: 2- and 3-peer sessions, non-sparse, intervals 1..=12, one peer's game perturbs its state for every simulation of frames >= D (D on a grid over 1..300; thorough: every D in 1..=120): no event may name a frame before D+1 or involve two non-diverging peers, every event must carry exactly the checksums the two peers last saved for that frame (the harness records every save), and every involved peer must have an event naming a frame <= D+1 + 4 intervals + 2 windows + 20. Non-trivial: false-alarm runs with >=10 checksum reports delivered and >=1 rollback; detection runs that reached the deadline. Distinct: configuration + trace hash.".into(),
        assumptions: std_assumptions(),
        floor_nontrivial: if ctx.quick() { 300 } else { 8000 },
        exhaustive: None,
        extra: Map::new(),
    };
    conclude(ctx, meta, res, started).exit
}
