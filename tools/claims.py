TB = "Trusted: the harness (simulated clock/network, hash-chain game, 15-line truth model), the verif-hooks feature (virtual clock, read-only accessors). Verdict is 'held on the executions produced', never 'verified'."
RM = "runtime monitoring: online oracle (truth model + serial replay) over deterministic simulated executions with fault injection"
claim("C01", "exploration",
      "Thousands of randomized multi-peer executions (all topologies, windows, delays, saving modes, predictors, lossy/reordering links, outages, skew, long histories that wrap every ring) with an oracle comparing every confirmed frame and state against an executable truth model and the serial replay, online after every call. Exploration is the right level: the quantifier is over schedules/faults/histories, which a monitor can sample densely but not exhaust.",
      TB, RM, "4 C01")
