TB = "Trusted: the harness (simulated clock/network, hash-chain game, 15-line truth model), the verif-hooks feature (virtual clock, read-only accessors). Verdict is 'held on the executions produced', never 'verified'."
RM = "runtime monitoring: online oracle (truth model + serial replay) over deterministic simulated executions with fault injection"
claim("C01", "exploration",
      "Thousands of randomized multi-peer executions (all topologies, windows, delays, saving modes, predictors, lossy/reordering links, outages, skew, long histories that wrap every ring) with an oracle comparing every confirmed frame and state against an executable truth model and the serial replay, online after every call. Exploration is the right level: the quantifier is over schedules/faults/histories, which a monitor can sample densely but not exhaust.",
      TB, RM, "4 C01")
claim("C02", "exploration",
      "Every request list of every call in thousands of randomized executions (C01's space, starved peers incl. lockstep, spectator sessions, the SyncTest grid) is executed against a shadow game that checks the contract clause by clause, including the content of loaded cells against the current timeline and the 'rollback targets are saved' invariant from retained cell clones.",
      TB, "runtime monitoring: invariant checker at the API boundary (request-list contract + retained GameStateCell inspection)", "4 C02")
claim("C03", "exploration",
      "Every (input, status) pair handed out in thousands of randomized executions (both predictors, held inputs, two-peer deaths) is judged against the truth model and the connection-status hook sampled after the call; finality and monotonicity of confirmed_frame() are asserted where they advance.",
      TB, "runtime monitoring: online oracle over AdvanceFrame inputs with truth model + read-only connection-status hook", "4 C03")
claim("C04", "exploration",
      "Grid of windows 0..=12 x delays 0..=6 with one peer starved for 17 ms..50 s (outages or paused remote), lockstep wait helpers, deaths: after every call the distance of a newly simulated frame to the confirmed frame and every load depth are bounded by the window; lockstep lists are checked for Save/Load/Predicted and for frame changes on stalls.",
      TB, "runtime monitoring: invariants at the API boundary under starvation workloads", "4 C04")
claim("C13", "exploration",
      "The whole builder grid (players 1..=4 x window 0..=12 x check distance 0..=13 x delays x sparse) is enumerated: invalid points must be rejected, valid points run with a deterministic game (no false mismatch, request contract, inputs Confirmed and delayed) and with a game made non-deterministic at every placement of a placement set (detection lag and first named frame checked). Exhaustive over the grid, sampled over input sequences.",
      "Trusted: the harness game and its controlled non-determinism. Input sequences are sampled (unique random values), the configuration grid and (thorough) the placements are enumerated.", "runtime monitoring: executable reference (validity predicate, delayed-input model, request contract) over an enumerated configuration grid with injected non-determinism", "4 C13")
