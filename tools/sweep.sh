#!/bin/bash
# tools/sweep.sh <tier> <seed-from> <seed-to> [ids...]   -- runs checks over a range of seeds without writing evidence; prints only problems
TIER=$1; A=$2; B=$3; shift 3
IDS=${@:-$(python3 -c "import json; print(' '.join(c['property_id'] for c in json.load(open('$(dirname $0)/../MANIFEST.json'))['checks']))")}
cd "$(dirname "$0")/../harness" && CARGO_NET_OFFLINE=true cargo build --release --offline >/dev/null 2>&1 || { echo BUILD-FAILED; exit 2; }
for seed in $(seq $A $B); do
  for id in $IDS; do
    out=$(VERIF_SEED=$seed timeout 3000 target/release/ggrs-verif check $id --tier $TIER --no-evidence 2>&1); rc=$?
    if [ $rc -ne 0 ]; then echo "seed=$seed $id rc=$rc"; echo "$out" | grep -E "VIOLATION|INCONCLUSIVE|^    case" | head -4 | cut -c1-400; fi
  done
  echo "seed $seed done"
done
