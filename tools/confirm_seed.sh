#!/bin/bash
# tools/confirm_seed.sh <seed-id> <worktree>  -- re-verifies an independently seeded change in its scratch worktree
# (existing tests pass with it; the demonstration fails with it and passes without it) and, if confirmed, stores
# patch.diff, the demonstration and the author's notes under /verif/seeded/<seed-id>/ together with a confirm.json.
set -u
ID=$1; WT=$2
cd "$WT" || exit 2
export CARGO_NET_OFFLINE=true
git diff -- src > /tmp/confirm_$ID.diff
[ -s /tmp/confirm_$ID.diff ] || { echo "$ID: no src change in $WT"; exit 2; }
[ -f tests/seed_demo.rs ] || { echo "$ID: no tests/seed_demo.rs"; exit 2; }
FEAT=""; grep -q "verif_hooks" tests/seed_demo.rs && FEAT="--features verif-hooks"
run_demo() { flock /tmp/ggrs-tests.lock timeout 900 cargo test --offline $FEAT --test seed_demo -- --test-threads=1 2>&1 | grep -E "^test result|panicked|error(\[|:)" | head -5; }
suite() { flock /tmp/ggrs-tests.lock timeout 1500 cargo test --offline -- --test-threads=1 2>&1 | grep -E "^test result" | awk '{p+=$4; f+=$6} END {print p" passed, "f" failed"}'; }
mv tests/seed_demo.rs /tmp/confirm_$ID.demo.rs
S_WITH=$(suite)
mv /tmp/confirm_$ID.demo.rs tests/seed_demo.rs
D_WITH=$(run_demo)
git checkout -- src
D_WITHOUT=$(run_demo)
git apply /tmp/confirm_$ID.diff
echo "$ID suite with change: $S_WITH"
echo "$ID demo with change: $D_WITH"
echo "$ID demo without change: $D_WITHOUT"
ok=1
echo "$S_WITH" | grep -q ", 0 failed" || ok=0
echo "$S_WITH" | grep -qE "^1[0-9][0-9] passed" || ok=0
echo "$D_WITH" | grep -qE "FAILED|panicked" || ok=0
echo "$D_WITHOUT" | grep -q "test result: ok" || ok=0
echo "$D_WITHOUT" | grep -qE "FAILED" && ok=0
if [ $ok = 1 ]; then
  D=/verif/seeded/$ID; mkdir -p $D
  cp /tmp/confirm_$ID.diff $D/patch.diff; cp tests/seed_demo.rs $D/seed_demo.rs; cp SEED_NOTES.md $D/notes.md 2>/dev/null
  python3 - "$ID" "$S_WITH" "$D_WITH" "$D_WITHOUT" "$FEAT" <<'EOF'
import json,sys
i,s,dw,dwo,feat=sys.argv[1:6]
json.dump({"existing_tests_with_patch":s,"demo_with_patch":dw.splitlines()[:3],"demo_without_patch":dwo.splitlines()[:2],"command":f"cargo test --offline {feat} --test seed_demo -- --test-threads=1".replace("  "," ")},open(f"/verif/seeded/{i}/confirm.json","w"),indent=1)
EOF
  echo "$ID CONFIRMED"
else
  echo "$ID NOT CONFIRMED"
fi
rm -f /tmp/confirm_$ID.diff
