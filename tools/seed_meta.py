#!/usr/bin/env python3
"""tools/seed_meta.py <ID> <property> : applies /verif/seeded/<ID>/patch.diff to /repo, runs the quick check of <property>
(and optionally others), records what fired into meta.json, undoes the patch."""
import sys, subprocess, json, re, os
sid, props = sys.argv[1], sys.argv[2:]
d=f"/verif/seeded/{sid}"
assert subprocess.run(["git","-C","/repo","status","--porcelain","--untracked-files=no"],capture_output=True,text=True).stdout.strip()=="" , "repo dirty"
subprocess.run(["git","-C","/repo","apply",f"{d}/patch.diff"],check=True)
res={}
try:
    for p in props:
        r=subprocess.run(["./check",p,"--tier","quick","--no-evidence","-v","--no-stop"],cwd="/verif",capture_output=True,text=True,timeout=900)
        out=r.stdout
        viol=[l.strip() for l in out.splitlines() if re.match(r"\s+x\d+:",l)][:4]
        first=[l.strip() for l in out.splitlines() if l.strip().startswith("case ")][:1]
        head=[l for l in out.splitlines() if l.startswith("[")][:1]
        res[p]={"exit":r.returncode,"summary":head[0] if head else "", "violation_classes":viol,"first_case":first[0][:600] if first else ""}
finally:
    subprocess.run(["git","-C","/repo","checkout","--","."],check=True)
meta_path=f"{d}/meta.json"
meta=json.load(open(meta_path)) if os.path.exists(meta_path) else {}
meta.setdefault("checks_run_against_it",{}).update(res)
json.dump(meta,open(meta_path,"w"),indent=1)
for p,v in res.items(): print(sid,p,"exit",v["exit"],v["violation_classes"][:2])
