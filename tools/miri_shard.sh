#!/bin/bash
# Optional second observer (decides no property): runs three tiny workloads of the harness under Miri.
# Takes 5-15 minutes. Exit 0 = no undefined behaviour reported and the oracles were silent.
cd "$(dirname "$0")/../harness" || exit 2
MIRIFLAGS="-Zmiri-disable-isolation" CARGO_NET_OFFLINE=true cargo +nightly miri run --offline -- miri-shard 2>&1 | grep -v "^warning\|^ *|\|^ *-->\|^ *=\|^$\|never used\|^\.\.\." | tail -20
exit ${PIPESTATUS[0]}
