#!/usr/bin/env python3
"""tools/validate_evidence.py : validates MANIFEST.json and every evidence/<id>.json against the schemas in /root/.vp"""
import json, sys, glob
import jsonschema
ok = True
m = json.load(open('/verif/MANIFEST.json'))
jsonschema.validate(m, json.load(open('/root/.vp/MANIFEST.schema.json')))
es = json.load(open('/root/.vp/EVIDENCE.schema.json'))
for f in sorted(glob.glob('/verif/evidence/*.json')):
    try:
        e = json.load(open(f)); jsonschema.validate(e, es)
        print(f.split('/')[-1], 'ok', e.get('tier'), e.get('verdict', e.get('result')))
    except Exception as ex:
        ok = False; print(f, 'INVALID', str(ex)[:200])
sys.exit(0 if ok else 1)
