#!/bin/bash
# tools/run_all.sh [quick|thorough] [seed]  -- runs every claimed check, prints one line per check
TIER=${1:-quick}; export VERIF_SEED=${2:-0}
cd "$(dirname "$0")/.."
for id in $(python3 -c "import json; print(' '.join(c['property_id'] for c in json.load(open('MANIFEST.json'))['checks']))"); do
  s=$(date +%s.%N); out=$(./check $id --tier $TIER 2>&1); rc=$?; e=$(date +%s.%N)
  printf "%s rc=%d %5.1fs  %s\n" $id $rc $(echo "$e - $s" | bc) "$(echo "$out" | grep -E '^\[' | head -1)"
  echo "$out" | grep -E "^(VIOLATION|INCONCLUSIVE|BUILD-FAILED)" | head -3
done
