#!/bin/bash
# tools/corpus.sh [seed]  (CORPUS_ONLY=<regex> restricts it to matching names) -- runs every mutant, reverted fix and seeded change against the quick check of its target
# property (patch applied to /repo, undone afterwards) and prints the ones that are NOT caught.
SEED=${1:-0}; export VERIF_SEED=$SEED
cd /verif
EQUIV="c07_disc_twice c12_resume_always c15_ping_full"
miss=0; total=0
run() { # name patch ids
  local name=$1 patch=$2 ids=$3
  if [ -n "${CORPUS_ONLY:-}" ] && ! echo "$name" | grep -Eq "$CORPUS_ONLY"; then return; fi
  git -C /repo apply "$PWD/$patch" || { echo "$name: patch does not apply"; return; }
  local caught=""
  for id in $ids; do
    out=$(timeout 1500 ./check $id --tier quick --no-evidence 2>&1); rc=$?
    [ $rc -eq 1 ] && caught="$caught $id"
  done
  git -C /repo checkout -- .
  total=$((total+1))
  if [ -z "$caught" ]; then echo "MISSED $name (targets: $ids)"; miss=$((miss+1)); else echo "caught $name by$caught"; fi
}
[ -n "$(git -C /repo status --porcelain --untracked-files=no)" ] && { echo "/repo dirty"; exit 2; }
for p in mutants/c*.diff; do
  n=$(basename $p .diff); case " $EQUIV " in *" $n "*) continue;; esac
  id=C$(echo $n | sed -E 's/^c([0-9]+)_.*/\1/')
  [ "$n" = "c02_sparse_gt" ] && id=C05
  run $n $p $id
done
run revert_fix_F1 mutants/revert_fix_F1.diff C05
run revert_fix_F2 mutants/revert_fix_F2.diff "C14 C08"
run revert_fix_F4a mutants/revert_fix_F4a.diff C11
run revert_fix_F4b mutants/revert_fix_F4b.diff C11
run revert_fix_F5 mutants/revert_fix_F5.diff C12
run revert_fix_F6 mutants/revert_fix_F6.diff C08
run revert_fix_F7 mutants/revert_fix_F7.diff C12
run revert_fix_F9 mutants/revert_fix_F9.diff C17
run revert_fix_F10 mutants/revert_fix_F10.diff C12   # reverts F11 and F10 together (F11 alone makes F10's flag redundant)
run revert_fix_F11 mutants/revert_fix_F11.diff C12
run revert_fix_F12 mutants/revert_fix_F12.diff C10   # stale-gossip panics F3d-f (quick) and the silent divergence F12 (thorough)
for d in seeded/C* seeded/r[0-9]-C*; do [ -f $d/patch.diff ] || continue; n=$(basename $d); id=${n##*-}; ids=$id; [ "$n" = "r4-C17" ] && ids="C17 C09"; [ "$n" = "r5-C10" ] && ids="C10 C17"; [ "$n" = "r6-C03" ] && ids="C06"; [ "$n" = "r7-C02" ] && ids="C02 C07"; [ "$n" = "r7-C03" ] && ids="C03 C10"; run seed-$n $d/patch.diff "$ids"; done
echo "corpus: $total changes, $miss missed (seed $SEED)"
