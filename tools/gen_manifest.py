#!/usr/bin/env python3
"""Regenerates /verif/MANIFEST.json from the table below (keeps it valid at all times)."""
import json, subprocess, os
V = "/verif"
props = [json.loads(l) for l in open(f"{V}/properties.jsonl")]
ids = [p["id"] for p in props]

# property -> (level category, level text, level note, technique, design_ref)
CLAIMED = {}
def claim(pid, cat, text, note, tech, ref):
    CLAIMED[pid] = dict(cat=cat, text=text, note=note, tech=tech, ref=ref)

exec(open(f"{V}/tools/claims.py").read())

hook_commits = subprocess.run(["git", "-C", "/repo", "log", "--format=%H %s", "--grep=^verif-hooks"], capture_output=True, text=True).stdout.strip().splitlines()
m = {
    "version": 1,
    "setup_cmd": "cd /verif/harness && CARGO_NET_OFFLINE=true cargo build --release --offline",
    "hooks": {
        "guard": "verif-hooks",
        "enable": "cargo feature of ggrs, switched on by the harness crate's path dependency (ggrs = { path = \"/repo\", features = [\"verif-hooks\"] }); the repository's own build and test commands never enable it",
        "baseline_off_cmd": "cd /repo && cargo test --workspace --no-fail-fast --offline",
        "source_commits": [c.split()[0] for c in hook_commits],
        "add_only": True,
    },
    "engines": [{
        "name": "ggrs-verif harness",
        "path": "/verif/harness",
        "serves_properties": sorted(CLAIMED),
        "kind_free_text": "Rust binary: deterministic discrete-event simulation of ggrs sessions (virtual clock hook, simulated lossy network, hash-chain game, truth model) with online and offline runtime monitors; counting allocator and child processes for hostile inputs",
    }],
    "checks": [],
    "notes": "Runtime monitoring family. Exit codes of every command: 0 held on everything explored (KNOWN-FINDING lines for listed open findings), 1 VIOLATION line, 2 build failure or coverage floor not reached (inconclusive). VERIF_SEED selects the workload seed. See DESIGN.md.",
    "not_applicable": [],
}
for pid in ids:
    if pid in CLAIMED:
        c = CLAIMED[pid]
        m["checks"].append({
            "property_id": pid,
            "quick_cmd": f"./check {pid} --tier quick",
            "thorough_cmd": f"./check {pid} --tier thorough",
            "evidence_file": f"/verif/evidence/{pid}.json",
            "replay_cmd_template": f"./check {pid} --replay {{path}}",
            "engine": "ggrs-verif harness",
            "level_claimed": {"category": c["cat"], "text": c["text"], "design_ref": c["ref"]},
            "level_note": c["note"],
            "technique": c["tech"],
        })
    else:
        m["not_applicable"].append({"property_id": pid, "reason": "check not built yet in this round (planned in DESIGN.md section 4); not claimed until its monitor exists and is calibrated"})
json.dump(m, open(f"{V}/MANIFEST.json", "w"), indent=1)
print("claimed:", sorted(CLAIMED), "unclaimed:", [i for i in ids if i not in CLAIMED])
try:
    import jsonschema
    jsonschema.validate(m, json.load(open("/root/.vp/MANIFEST.schema.json")))
    print("MANIFEST valid")
except ImportError:
    print("jsonschema not importable here; validate with python3-vt")
